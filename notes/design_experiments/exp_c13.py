import sys, io, contextlib; sys.path.insert(0,'/tmp/exp'); sys.path.insert(0,'/repo')
from guess_helper import load, run_all
from lib_scorer.pcfg_password_scorer import PCFGPasswordScorer
from lib_scorer.grammar_io import load_grammar
rd=sys.argv[1]
g=load(rd); res=run_all(g, expand=False)
lang={}
for pt,prob,_,_ in res:
    if pt[0][0]=='M': continue
    cur=[]; g.print_guess=lambda s: cur.append(s); g.create_guesses(list(pt))
    for s in cur: lang.setdefault(s,[]).append(prob)
s=PCFGPasswordScorer(); assert load_grammar(s,rd); s.create_multiword_detector(); s.create_omen_scorer(rd, 9)
cands=set(lang)|{x.upper() for x in lang}|{x+'1' for x in lang}|{x.capitalize() for x in lang}|{'zzz','bob@gmail.com','www.google.com'}
bad=0
for c in sorted(cands):
    pw,cat,p,ol=s.parse(c)
    if p>0:
        if c not in lang or not any(abs(p-q)<=1e-9*q for q in lang[c]):
            bad+=1; print('MISMATCH',repr(c),p,lang.get(c))
print('cands',len(cands),'nonzero',sum(1 for c in cands if s.parse(c)[2]>0),'bad',bad)
print(s.parse('bob@gmail.com'), s.parse('www.google.com'), s.parse('password1'), lang.get('password1'))
