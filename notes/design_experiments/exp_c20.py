import sys, io, os, re, contextlib, shutil, random, hashlib; sys.path.insert(0,'/tmp/exp3'); sys.path.insert(0,'/repo')
import edit_rules as er
rnd=random.Random(int(sys.argv[1]))
def tok(st): return re.findall(r'[A-Z][0-9]*', st)
def length_interval(st):
    lo=hi=0
    for t in tok(st):
        c=t[0]
        if c in 'ADOK': lo+=int(t[1:]); hi+=int(t[1:])
        elif c=='Y': lo+=4; hi+=4
        elif c=='X': lo+=1; hi+=4
    return lo,hi
def tree_hash(d, skip):
    h={}
    for r,_,fs in os.walk(d):
        for f in fs:
            p=os.path.join(r,f)
            if os.path.relpath(p,d)==skip: continue
            h[os.path.relpath(p,d)]=hashlib.sha1(open(p,'rb').read()).hexdigest()
    return h
bad=0; tot=0
labels=['A1','A3','A10','A12','D1','D2','D11','O1','O2','K4','K6','Y1','X1','A123']
for t in range(int(sys.argv[2])):
    rules='/tmp/exp3/ER'; shutil.rmtree(rules,ignore_errors=True); os.makedirs(rules+'/T/Grammar'); os.makedirs(rules+'/T/Alpha')
    open(rules+'/T/Alpha/3.txt','w').write('abc\t1.0\n'); open(rules+'/T/config.ini','w').write('[x]\n')
    sts=[]
    for _ in range(rnd.randint(1,10)):
        sts.append(''.join(rnd.choice(labels) for _ in range(rnd.randint(1,4))))
    if rnd.random()<.6: sts.insert(rnd.randint(0,len(sts)),'M')
    sts=list(dict.fromkeys(sts))
    probs=sorted([rnd.random()*10**-rnd.randint(0,6) for _ in sts],reverse=True)
    orig=''.join('%s\t%r\n'%(s,p) for s,p in zip(sts,probs))
    open(rules+'/T/Grammar/grammar.txt','w').write(orig)
    mn=rnd.choice([0,0,1,4,8,12]); mx=rnd.choice([0,0,4,8,12,20])
    ts=rnd.choice([False,False,['A','D'],['A','D','O','M'],['A','D','O','K','Y','X','M']])
    rg=rnd.choice([None,None,['^A'],['D','A'],['[0-9]$'],['^[AM]']])
    copy=rnd.choice([None,'C'])
    cfg={'rules_dir':rules,'rule':'T','copy':copy,'min_length':mn,'max_length':mx,'terminal_set':ts}
    if rg: cfg['regex']=rg
    before=tree_hash(rules+'/T', None)
    with contextlib.redirect_stdout(io.StringIO()): er.edit_rules(cfg)
    tgt=rules+'/'+(copy or 'T')
    after=open(tgt+'/Grammar/grammar.txt').read()
    tot+=1
    if copy and tree_hash(rules+'/T',None)!=before: bad+=1; print('SRC CHANGED')
    h2=tree_hash(tgt,'Grammar/grammar.txt'); b2=dict(before); b2.pop('Grammar/grammar.txt')
    if h2!=b2: bad+=1; print('OTHER FILES CHANGED')
    ol=orig.splitlines(); al=after.splitlines()
    # subsequence with identical text
    it=iter(ol)
    if not all(any(x==y for y in it) for x in al): bad+=1; print('NOT SUBSEQ',mn,mx,ts,rg,ol,al); continue
    kept=set(al)
    for line in ol:
        st=line.split('\t')[0]; lo,hi=length_interval(st)
        def len_ok(L):
            if not (mn or mx): return True
            if L==0: return True
            if mx==0: return L>=mn
            return mn<=L<=mx
        any_ok=any(len_ok(L) for L in range(lo,hi+1)); all_ok=all(len_ok(L) for L in range(lo,hi+1))
        ts_ok= (not ts) or all(x[0] in ts for x in tok(st))
        rg_ok= (not rg) or all(re.search(r,st) for r in rg)
        must_keep = all_ok and ts_ok and rg_ok
        may_keep = any_ok and ts_ok and rg_ok
        if must_keep and line not in kept: bad+=1; print('WRONGLY REMOVED',st,mn,mx,ts,rg)
        if (not may_keep) and line in kept: bad+=1; print('WRONGLY KEPT',st,mn,mx,ts,rg)
print('tot',tot,'bad',bad)
