import sys, random, copy, itertools; sys.path.insert(0,'/tmp/exp')
from synth import write_ruleset
from guess_helper import *
from collections import Counter
def fixed_is_parent_around(self, pt_item, max_prob):
    child = pt_item['pt']
    for pos, item in enumerate(child):
        if item[1] == 0: continue
        new_parent = copy.copy(child)
        new_parent[pos] = (new_parent[pos][0], new_parent[pos][1]-1)
        if self._find_prob(new_parent, pt_item['base_prob']) <= max_prob:
            return True
    return False
use_fix = len(sys.argv)>1
if use_fix: PcfgGrammar.is_parent_around = fixed_is_parent_around
rnd = random.Random(5)
bad=0; cases=0
for trial in range(300):
    nv = rnd.randint(1,3)
    terms={}
    names=[]
    pool=[0.5,0.25,0.125,0.3,0.2,0.1,0.4,0.6,0.05]
    for i,cat in enumerate(['D','O','K'][:nv]):
        k=rnd.randint(1,3)
        ps=sorted(rnd.sample(pool,k),reverse=True)
        terms[cat+'1']=[(str(j),p) for j,p in enumerate(ps)]
        names.append(cat+'1')
    base=[(''.join(names),0.5)]
    if rnd.random()<0.5: base.append((names[0]+names[0],0.25))
    write_ruleset('/tmp/exp/S2', terms, base)
    g=load('/tmp/exp/S2'); full=run_all(g, expand=False)
    for k in range(1,len(full)+1):
        mp=full[k-1][1]
        sc = configparser.ConfigParser(); sc.add_section('guessing_info')
        sc.set('guessing_info','min_probability','0.0'); sc.set('guessing_info','max_probability',repr(mp))
        g2=load('/tmp/exp/S2'); res=run_all(g2, sc, expand=False)
        got=Counter((pt) for pt,prob,_,_ in res)
        exp=Counter(pt for pt,prob,_,_ in full if prob<=mp)
        cases+=1
        probs=[p for _,p,_,_ in res]
        if got!=exp or any(probs[i]<probs[i+1] for i in range(len(probs)-1)):
            bad+=1
            if bad<3: print('BAD', terms, base, 'k',k, 'extra', got-exp, 'missing', exp-got)
print('cases',cases,'bad',bad,'fix',use_fix)
