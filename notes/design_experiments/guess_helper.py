import sys, os, io, contextlib, configparser
sys.path.insert(0, '/repo')
from lib_guesser.pcfg_grammar import PcfgGrammar
from lib_guesser.priority_queue import PcfgQueue

def load(rdir, **kw):
    with contextlib.redirect_stdout(io.StringIO()):
        g = PcfgGrammar('T', rdir, '4.7', save_file='/tmp/exp/sess.sav', **kw)
    return g

def run_all(g, save_config=None, expand=True, maxn=None):
    out = []
    g.print_guess = lambda s: cur.append(s)
    q = PcfgQueue(g, save_config)
    n=0
    while True:
        it = q.next()
        if it is None: break
        cur = []
        g.print_guess = lambda s, cur=cur: cur.append(s)
        cnt = g.create_guesses(it['pt']) if expand else None
        out.append((tuple(it['pt']), it['prob'], cur, cnt))
        n+=1
        if maxn and n>=maxn: break
    return out

if __name__ == '__main__':
    g = load('/tmp/exp/R1', skip_brute=True)
    res = run_all(g)
    tot=0
    for pt, prob, gs, cnt in res:
        print(pt, prob, gs[:4], cnt)
        tot += prob*len(gs)
    print('sum', tot)
