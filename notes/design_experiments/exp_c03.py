import sys, io, contextlib, shutil, random; sys.path.insert(0,'/tmp/exp3'); sys.path.insert(0,'/repo')
import lib_trainer.pcfg_password_parser as ppp
from train_helper import train
from guess_helper import load, run_all
rec=[]
orig=ppp.base_structure_creation
def wrap(sl):
    rec.append([tuple(x) for x in sl]); return orig(sl)
ppp.base_structure_creation=wrap
rnd=random.Random(int(sys.argv[1]))
words=['password','love','monkey','dragon','пароль','привет','σκύλος','café','x','ab','Zoë']
digs=['1','12','123','2019','1987','007','20195','19']
syms=['!','!!','#1','<3',' ','  ','@','.','$%','№','😀','No.1','Mr.',';p','*0*']
walks=['1qaz','2wsx','qwer','1q2w3e','zxcvb','йцук','!QAZ','asdf1']
def cap(w):
    r=rnd.random()
    if r<.5: return w
    if r<.7: return w.capitalize()
    if r<.8: return w.upper()
    return ''.join(c.upper() if rnd.random()<.5 else c for c in w)
def okletter(c):
    if not c.isalpha(): return True
    if len(c.lower())!=1: return False
    return (c.lower().upper()==c) if c.isupper() else (c.lower()==c)
def gen_pw():
    parts=[]
    for _ in range(rnd.randint(1,4)):
        r=rnd.random()
        if r<.45: parts.append(cap(rnd.choice(words)))
        elif r<.65: parts.append(rnd.choice(digs))
        elif r<.85: parts.append(rnd.choice(syms))
        else: parts.append(rnd.choice(walks))
    return ''.join(parts)
bad=0; tot=0; skipped=0
for trial in range(int(sys.argv[2])):
    base=[gen_pw() for _ in range(rnd.randint(1,12))]
    pws=[p for p in base for _ in range(rnd.choice([1,1,2,5,6]))]
    rnd.shuffle(pws)
    if not all(okletter(c) for p in pws for c in p): continue
    open('/tmp/exp3/pw.txt','w',encoding='utf-8').write('\n'.join(pws)+'\n')
    shutil.rmtree('/tmp/exp3/R',ignore_errors=True); rec.clear()
    cov=rnd.choice([0.3,0.6,1.0]); ng=rnd.randint(2,5)
    try: r,_=train('/tmp/exp3/pw.txt','/tmp/exp3/R',coverage=cov,ngram=ng)
    except Exception as e: skipped+=1; continue
    if not r: skipped+=1; continue
    n=len(pws); segs=rec[:n]  # pass 2 order == file order
    try:
        g=load('/tmp/exp3/R', skip_brute=(cov!=1.0))
    except Exception as e:
        print('LOAD EXC',repr(e)); bad+=1; continue
    # bound language
    res=run_all(g, expand=False)
    size=0
    for pt,prob,_,_ in res:
        k=1
        for t,i in pt: k*=len(g.grammar[t][i]['values'])
        size+=k
    if size>200000: skipped+=1; continue
    res=run_all(load('/tmp/exp3/R', skip_brute=(cov!=1.0)))
    lang=set(x for _,_,gs,_ in res for x in gs)
    tot+=1
    total=sum(prob*len(gs) for _,prob,gs,_ in res)
    for p,sl in zip(pws,segs):
        sup=not any(l[0] in 'EW' for _,l in sl)
        assert ''.join(s for s,_ in sl).lower()==p.lower(), (p,sl)
        if sup and p not in lang:
            bad+=1; print('MISSING',repr(p),sl); break
    if abs(total-1)>1e-9: bad+=1; print('SUM',total, cov, pws[:4])
print('tot',tot,'bad',bad,'skipped',skipped)
