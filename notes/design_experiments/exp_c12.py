import sys, io, contextlib, threading, queue, types; sys.path.insert(0,'/tmp/exp2'); sys.path.insert(0,'/repo')
from synth import write_ruleset
from guess_helper import load
import lib_guesser.cracking_session as cs
import pcfg_guesser as pg
from lib_guesser.priority_queue import PcfgQueue

class Sched:
    """harness-owned keyboard: events delivered at named loop positions"""
    def __init__(self, events):   # events: {('pop',i): ev}
        self.events=events; self.q=queue.Queue(); self.blocked=threading.Event(); self.thread=None
    def input(self):
        self.blocked.set()
        ev=self.q.get()
        if isinstance(ev, BaseException): raise ev
        return ev
    def deliver(self, ev):
        if self.thread is None or not self.thread.is_alive(): return
        self.blocked.clear(); self.q.put(ev)
        # settle: thread blocked again or dead
        while self.thread.is_alive() and not self.blocked.wait(0.001): pass
    def at(self, pos):
        if pos in self.events: self.deliver(self.events[pos])

def session(rdir, events):
    g=load(rdir); g.save_file='/tmp/exp2/c12.sav'
    sched=Sched(events)
    real_thread=threading.Thread
    class T(real_thread):
        def __init__(s,*a,**k): super().__init__(*a,**k); sched.thread=s
    cs.threading=types.SimpleNamespace(Thread=T, main_thread=threading.main_thread)
    cs.input=sched.input
    cs.time=types.SimpleNamespace(sleep=lambda s: None)
    orig_next=PcfgQueue.next; cnt=[0]
    def next_(self):
        cnt[0]+=1; sched.at(('before_pop',cnt[0]))
        r=orig_next(self); sched.at(('after_pop',cnt[0])); return r
    PcfgQueue.next=next_
    pi={'rule_name':'T','skip_brute':False,'skip_case':False}
    sc=pg.create_save_config(pi); sc.set('rule_info','uuid',g.ruleset_info['uuid'])
    buf=io.StringIO(); err=io.StringIO()
    try:
        with contextlib.redirect_stdout(buf), contextlib.redirect_stderr(err):
            # wait for the thread to block in input() before the loop starts: done lazily by deliver()
            cs.CrackingSession(g, sc, '/tmp/exp2/c12.sav').run()
    finally:
        PcfgQueue.next=orig_next
        if sched.thread and sched.thread.is_alive(): sched.q.put(EOFError()); sched.thread.join(1)
    return buf.getvalue().split('\n')[:-1]
write_ruleset('/tmp/exp2/S', {'D1':[('1',0.5),('2',0.3),('3',0.2)],'O1':[('!',0.6),('?',0.4)]}, [('D1O1',0.6),('D1',0.4)])
U=session('/tmp/exp2/S', {})
print('U',U)
for name,ev in [('status',''),('help','h'),('quit','q'),('EOF',EOFError()),('lost stdin',RuntimeError('input(): lost sys.stdin'))]:
    for pos in [('before_pop',1),('after_pop',2),('before_pop',4)]:
        out=session('/tmp/exp2/S', {pos:ev})
        print(f'{name:10s} at {pos}: {len(out)} lines', 'FULL' if out==U else ('prefix' if out==U[:len(out)] else 'DIFF'))
