import sys, io, contextlib, shutil, os; sys.path.insert(0,'/tmp/exp'); sys.path.insert(0,'/repo')
from synth import write_ruleset
from guess_helper import load, run_all
# F4: M group with two equal-prob levels
omen={'ngram':2,'alphabet':'ab','ip':[(0,'a'),(1,'b')],'cp':[(0,'aa'),(1,'ab'),(0,'ba'),(1,'bb')],'ln':[10,0,1]+[10]*18}
write_ruleset('/tmp/exp/S10', {'D1':[('1',1.0)]}, [('M',0.5),('D1',0.5)], omen=omen, omen_prob=[(1,0.1),(2,0.1),(3,0.05)], keyspace=[(1,5),(2,5),(3,5)])
g=load('/tmp/exp/S10'); print('M groups', g.grammar['M'])
for pt,prob,gs,cnt in run_all(g): print(pt,prob,gs)
# F20: edit_rules X1
import edit_rules as er
rules='/tmp/exp/ER'; shutil.rmtree(rules,ignore_errors=True); os.makedirs(rules)
write_ruleset(rules+'/T', {'A3':[('abc',1.0)],'C3':[('LLL',1.0)],'X1':[('No.1',0.6),('#1',0.4)],'D1':[('7',1.0)]}, [('A3X1',0.5),('A3D1',0.3),('A3',0.2)])
with contextlib.redirect_stdout(io.StringIO()):
    er.edit_rules({'rules_dir':rules,'rule':'T','copy':None,'min_length':0,'max_length':4,'terminal_set':False})
print(open(rules+'/T/Grammar/grammar.txt').read())
g=load(rules+'/T'); print([ (x, len(x)) for _,_,gs,_ in run_all(g) for x in gs])
