import sys; sys.path.insert(0,'/tmp/exp')
from synth import write_ruleset
from guess_helper import *
write_ruleset('/tmp/exp/S1', {'D1':[('1',0.6),('2',0.4)], 'O1':[('!',0.7),('?',0.3)]}, [('D1O1',1.0)])
g = load('/tmp/exp/S1')
full = run_all(g)
print([ (pt,prob) for pt,prob,_,_ in full])
for k in range(1,len(full)+1):
    sc = configparser.ConfigParser(); sc.add_section('guessing_info')
    sc.set('guessing_info','min_probability','0.0'); sc.set('guessing_info','max_probability',repr(full[k-1][1]))
    g2 = load('/tmp/exp/S1')
    res = run_all(g2, sc)
    print('cut after pop',k,'max_prob',full[k-1][1],'->',[(pt,prob) for pt,prob,_,_ in res])
