import sys, random, itertools; sys.path.insert(0,'/tmp/exp')
from synth import write_ruleset
from guess_helper import *
from collections import Counter
rnd=random.Random(int(sys.argv[1]) if len(sys.argv)>1 else 1)
bad=0
pools=[[0.5,0.25,0.125,0.0625,0.03125],[0.1,0.2,0.3,0.4,0.7,0.6,0.05],[1e-300,1e-200,1e-160,1e-155,5e-324,1e-310],[1/3,1/7,1/9,1/11,3/7,0.1,0.01]]
for trial in range(400):
    pool=rnd.choice(pools)
    terms={}; types=[]
    for cat in ['D1','O1','K4','D2'][:rnd.randint(1,4)]:
        k=rnd.randint(1,4); ps=sorted(rnd.sample(pool,min(k,len(pool))),reverse=True)
        terms[cat]=[(cat+str(j),p) for j,p in enumerate(ps)]; types.append(cat)
    base=[]
    for b in range(rnd.randint(1,3)):
        n=rnd.randint(1,4); base.append((''.join(rnd.choice(types) for _ in range(n)), rnd.choice(pool)))
    base.sort(key=lambda x:-x[1])
    write_ruleset('/tmp/exp/S8', terms, base)
    g=load('/tmp/exp/S8'); res=run_all(g, expand=False)
    got=Counter((pt,bp) for pt,bp in [(r[0], None) for r in res])
    # expected
    exp=Counter()
    for bi,b in enumerate(g.base):
        for idx in itertools.product(*[range(len(g.grammar[t])) for t in b['replacements']]):
            exp[(tuple(zip(b['replacements'],idx)),None)]+=1
    probs=[r[1] for r in res]
    ok_order=all(probs[i]>=probs[i+1] for i in range(len(probs)-1))
    if got!=exp or not ok_order:
        bad+=1; print('BAD',terms,base,ok_order, (exp-got), (got-exp))
print('bad',bad)
