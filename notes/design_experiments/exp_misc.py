import sys; sys.path.insert(0,'/tmp/exp')
from synth import write_ruleset
from guess_helper import *
# C14: no M in grammar + skip_brute
write_ruleset('/tmp/exp/S3', {'D1':[('1',0.6),('2',0.4)], 'O1':[('!',0.7),('?',0.3)]}, [('D1O1',0.75),('D1',0.25)])
g=load('/tmp/exp/S3', skip_brute=True); print('skip_brute no M: base=', g.base)
g=load('/tmp/exp/S3', skip_brute=False); print('default no M: base=', len(g.base))
# M only + skip_brute
write_ruleset('/tmp/exp/S4', {'D1':[('1',0.6),('2',0.4)]}, [('M',1.0)])
try:
    g=load('/tmp/exp/S4', skip_brute=True); print('M only skip_brute base', g.base)
except Exception as e: print('M only skip_brute raised', type(e))
# M in middle
write_ruleset('/tmp/exp/S5', {'D1':[('1',0.6),('2',0.4)]}, [('D1',0.5),('M',0.25),('D1D1',0.25)])
g=load('/tmp/exp/S5', skip_brute=True); print('M middle', g.base)
# C17 prince overshoot
from lib_princeling.wordlist_generation import create_prince_wordlist
write_ruleset('/tmp/exp/S6', {'D1':[('1',0.25),('2',0.25),('3',0.25),('4',0.25)]}, [('D1',1.0)], prince=[('D1',1.0)])
g=load('/tmp/exp/S6', base_structure_folder='Prince')
out=[]; g.print_guess=lambda s: out.append(s)
import io, contextlib
with contextlib.redirect_stderr(io.StringIO()): create_prince_wordlist(g, 2)
print('prince size 2 ->', out)
