import sys, random, io, contextlib; sys.path.insert(0,'/tmp/exp'); sys.path.insert(0,'/repo')
from guess_helper import load
from lib_guesser.honeyword_session import HoneywordSession
g=load('/tmp/exp/R1', skip_brute=True)
print('base sum', sum(b['prob'] for b in g.base), repr(sum(b['prob'] for b in g.base)))
import lib_guesser.pcfg_grammar as pgm
vals=[0.9999999999999999]*10
it=iter(vals)
orig=random.random
pgm.random.random=lambda: next(it)
try:
    print(g.random_walk())
except Exception as e: print('EXC',repr(e))
pgm.random.random=orig
# honeywords with M present
g=load('/tmp/exp/R1')
out=[]; g.print_guess=lambda s: out.append(s)
hs=HoneywordSession(g,'random_walk')
with contextlib.redirect_stderr(io.StringIO()): hs.run(limit=10)
print(out)
out2=[]; g.print_guess=lambda s: out2.append(s)
hs=HoneywordSession(g,'random_walk')
with contextlib.redirect_stderr(io.StringIO()): hs.run(limit=10)
print(out==out2, len(out))
