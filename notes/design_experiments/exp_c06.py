import sys, io, os, contextlib, shutil, random; sys.path.insert(0,'/tmp/exp3'); sys.path.insert(0,'/repo')
exec(open('/tmp/exp3/exp_c03.py').read().split("bad=0; tot=0; skipped=0")[0])
from collections import Counter
def expected(segs, N, cov):
    f={}
    def add(path,item): f.setdefault(path,Counter())[item]+=1
    base=Counter(); raw=Counter(); prince=Counter()
    for sl in segs:
        labels=[l for _,l in sl]
        for s,l in sl:
            prince[l]+=1
            c=l[0]
            if c=='A':
                add('Alpha/%d.txt'%len(s), s.lower()); add('Capitalization/%d.txt'%len(s), ''.join('U' if ch.isupper() else 'L' for ch in s))
            elif c=='D': add('Digits/%d.txt'%len(s), s)
            elif c=='O': add('Other/%d.txt'%len(s), s)
            elif c=='K': add('Keyboard/%d.txt'%len(s), s)
            elif c=='Y': add('Years/1.txt', s)
            elif c=='X': add('Context/1.txt', s)
        st=''.join(labels); raw[st]+=1
        if not any(l[0] in 'EW' for l in labels): base[st]+=1
    if cov==0: base=Counter({'M':1})
    elif cov!=1: base['M']=N/cov-N
    f['Grammar/grammar.txt']=base; f['Grammar/raw_grammar.txt']=raw; f['Prince/grammar.txt']=prince
    for k in ('Years/1.txt','Context/1.txt'): f.setdefault(k,Counter())
    return f
def render(c):
    tot=sum(c.values()); return ''.join('%s\t%s\n'%(k,str(v/tot)) for k,v in c.most_common())
bad=0; tot=0
for trial in range(int(sys.argv[2])):
    base=[gen_pw() for _ in range(rnd.randint(1,12))]+rnd.choice([[],['bob@gmail.com']*3,['www.abc.com1']])
    pws=[p for p in base for _ in range(rnd.choice([1,1,2,5,6]))]; rnd.shuffle(pws)
    open('/tmp/exp3/pw.txt','w',encoding='utf-8').write('\n'.join(pws)+'\n')
    shutil.rmtree('/tmp/exp3/R',ignore_errors=True); rec.clear()
    cov=rnd.choice([0,0.001,0.3,0.6,1.0])
    try: r,_=train('/tmp/exp3/pw.txt','/tmp/exp3/R',coverage=cov)
    except Exception: continue
    if not r: continue
    tot+=1
    exp=expected(rec[:len(pws)], len(pws), cov)
    for d in ['Alpha','Capitalization','Digits','Other','Keyboard','Years','Context','Grammar','Prince']:
        files=set(d+'/'+x for x in os.listdir('/tmp/exp3/R/'+d))
        want=set(k for k in exp if k.startswith(d+'/'))
        if files!=want: bad+=1; print('FILES',d,files^want)
    for k,c in exp.items():
        got=open('/tmp/exp3/R/'+k,encoding='utf-8').read()
        # compare as ordered? ties order: most_common insertion order -> our tally uses same insertion order (parse order)
        if got!=render(c):
            gl=sorted(got.splitlines()); el=sorted(render(c).splitlines())
            if gl!=el: bad+=1; print('CONTENT',k,got[:80],render(c)[:80])
            else: print('order-only diff',k)
print('tot',tot,'bad',bad)
