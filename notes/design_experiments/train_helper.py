import sys, os, io, contextlib
sys.path.insert(0, '/repo')
from lib_trainer.run_trainer import run_trainer
from lib_trainer.trainer_file_output import create_rule_folders

def train(pwfile, outdir, encoding='utf-8', coverage=0.6, ngram=4, alphabet_size=100, prefixcount=False, quiet=True):
    pi = {'name':'PCFG Trainer','version':'4.7','author':'x','contact':'y',
      'rule_name':'T','training_file':pwfile,'encoding':encoding,'comments':'','save_sensitive':True,
      'prefixcount':prefixcount,'ngram':ngram,'alphabet_size':alphabet_size,'alphabet':'','smoothing':0.01,
      'coverage':coverage,'max_len':21,'multiword':False}
    create_rule_folders(outdir)
    buf = io.StringIO()
    with contextlib.redirect_stdout(buf if quiet else sys.stdout):
        r = run_trainer(pi, outdir)
    return r, buf.getvalue()

if __name__ == '__main__':
    import shutil
    out = '/tmp/exp/R1'
    shutil.rmtree(out, ignore_errors=True)
    with open('/tmp/exp/pw1.txt','w',encoding='utf-8') as f:
        for p in ['password1']*6+['Password1']*2+['love']*6+['lovepassword']+['1qaz2wsx','abc#1','test2019!','a b','Пароль12','iloveyou','iloveyou','monkey12','monkey','monkey','dragon!!','bob@gmail.com','www.google.com']:
            f.write(p+'\n')
    print(train('/tmp/exp/pw1.txt', out)[0])
    for root, d, files in os.walk(out):
        for fn in sorted(files):
            p = os.path.join(root, fn)
            print('==', os.path.relpath(p, out), os.path.getsize(p))
