import os, json, configparser, shutil
def write_ruleset(d, terminals, base, omen=None, encoding='utf-8', uuid='u-1', prince=None, omen_prob=None, keyspace=None):
    """terminals: {'A3': [(value, prob),...], 'C3': [...], 'D1':...}; base: [(struct, prob)]"""
    shutil.rmtree(d, ignore_errors=True)
    dirs = {'A':'Alpha','C':'Capitalization','D':'Digits','O':'Other','K':'Keyboard','Y':'Years','X':'Context'}
    for x in list(dirs.values())+['Grammar','Omen','Emails','Websites','Prince']:
        os.makedirs(os.path.join(d,x), exist_ok=True)
    files = {k:[] for k in dirs}
    for name, items in terminals.items():
        cat, ln = name[0], name[1:]
        fn = ln + '.txt'
        files[cat].append(fn)
        with open(os.path.join(d, dirs[cat], fn), 'w', encoding=encoding) as f:
            for v,p in items: f.write(v+'\t'+repr(p)+'\n')
    for cat in ('Y','X'):
        p = os.path.join(d, dirs[cat], '1.txt')
        if not os.path.exists(p): open(p,'w').close()
    c = configparser.ConfigParser()
    c['TRAINING_PROGRAM_DETAILS'] = {'version':'4.7'}
    c['TRAINING_DATASET_DETAILS'] = {'encoding':encoding,'uuid':uuid}
    sec = {'A':'BASE_A','C':'CAPITALIZATION','D':'BASE_D','O':'BASE_O','K':'BASE_K','Y':'BASE_Y','X':'BASE_X'}
    for cat, s in sec.items():
        fl = files[cat] if cat not in 'YX' else ['1.txt']
        c[s] = {'name':cat,'directory':dirs[cat],'filenames':json.dumps(fl)}
    with open(os.path.join(d,'config.ini'),'w') as f: c.write(f)
    with open(os.path.join(d,'Grammar','grammar.txt'),'w') as f:
        for s,p in base: f.write(s+'\t'+repr(p)+'\n')
    with open(os.path.join(d,'Prince','grammar.txt'),'w') as f:
        for s,p in (prince or []): f.write(s+'\t'+repr(p)+'\n')
    for fn in ('Emails/email_providers.txt','Websites/website_hosts.txt'):
        open(os.path.join(d,fn),'w').close()
    # omen
    om = omen or {'ngram':2,'ip':[(0,'a')],'cp':[(0,'aa')],'ln':[10,0]+[10]*19,'alphabet':'a'}
    oc = configparser.ConfigParser(); oc['training_settings']={'ngram':str(om['ngram']),'encoding':encoding}
    with open(os.path.join(d,'Omen','config.txt'),'w') as f: oc.write(f)
    with open(os.path.join(d,'Omen','alphabet.txt'),'w',encoding=encoding) as f:
        for ch in om['alphabet']: f.write(ch+'\n')
    for nm in ('ip','cp'):
        with open(os.path.join(d,'Omen',nm.upper()+'.level'),'w',encoding=encoding) as f:
            for l,s in om[nm]: f.write(f'{l}\t{s}\n')
    with open(os.path.join(d,'Omen','EP.level'),'w',encoding=encoding) as f:
        for l,s in om['ip']: f.write(f'{l}\t{s}\n')
    with open(os.path.join(d,'Omen','LN.level'),'w') as f:
        for l in om['ln']: f.write(f'{l}\n')
    with open(os.path.join(d,'Omen','omen_keyspace.txt'),'w') as f:
        for l,k in (keyspace or [(1,1)]): f.write(f'{l}\t{k}\n')
    with open(os.path.join(d,'Omen','pcfg_omen_prob.txt'),'w') as f:
        for l,p in (omen_prob or [(1,0.5)]): f.write(f'{l}\t{p!r}\n')
