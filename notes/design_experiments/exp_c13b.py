import sys, io, contextlib, shutil, random; sys.path.insert(0,'/tmp/exp3'); sys.path.insert(0,'/repo')
exec(open('/tmp/exp3/exp_c03.py').read().split("bad=0; tot=0; skipped=0")[0])
from lib_scorer.pcfg_password_scorer import PCFGPasswordScorer
from lib_scorer.grammar_io import load_grammar
from lib_trainer.detection_rules.keyboard_walk import detect_keyboard_walk
from lib_trainer.detection_rules.email_detection import email_detection
from lib_trainer.detection_rules.website_detection import website_detection
bad=0; tot=0; nz=0
for trial in range(int(sys.argv[2])):
    base=[gen_pw() for _ in range(rnd.randint(1,12))]+rnd.choice([[],['bob@gmail.com'],['www.abc.com1']])
    pws=[p for p in base for _ in range(rnd.choice([1,1,2,5,6]))]
    open('/tmp/exp3/pw.txt','w',encoding='utf-8').write('\n'.join(pws)+'\n')
    shutil.rmtree('/tmp/exp3/R',ignore_errors=True)
    try: r,_=train('/tmp/exp3/pw.txt','/tmp/exp3/R',coverage=rnd.choice([0.5,1.0]))
    except Exception: continue
    if not r: continue
    g=load('/tmp/exp3/R'); res=run_all(g, expand=False)
    size=0
    for pt,prob,_,_ in res:
        if pt[0][0]=='M': continue
        k=1
        for t,i in pt: k*=len(g.grammar[t][i]['values'])
        size+=k
    if size>100000: continue
    lang={}
    for pt,prob,_,_ in res:
        if pt[0][0]=='M': continue
        cur=[]; g.print_guess=lambda s: cur.append(s); g.create_guesses(list(pt))
        for s in cur: lang.setdefault(s,[]).append(prob)
    sc=PCFGPasswordScorer()
    with contextlib.redirect_stdout(io.StringIO()), contextlib.redirect_stderr(io.StringIO()):
        assert load_grammar(sc,'/tmp/exp3/R'); sc.create_multiword_detector(); sc.create_omen_scorer('/tmp/exp3/R',9)
    L=list(lang)
    cands=set(pws)|set(rnd.sample(L,min(60,len(L))))
    for c in list(cands)[:40]:
        cands|={c.swapcase(), c+'1', c[:-1], c.capitalize(), c.replace('1','2'), c+'!', 'x'+c}
    cands|={'zzzz','bob@gmail.com','www.abc.com','a.b@c.org9'}
    for c in cands:
        if not c: continue
        r1=sc.parse(c); tot+=1
        sl,_,_=detect_keyboard_walk(c); em,_=email_detection(sl); ur,_,_=website_detection(sl)
        if em or ur:
            if r1[2]!=0 or r1[1] not in ('e','w'): bad+=1; print('EW',repr(c),r1)
            continue
        if r1[2]>0:
            nz+=1
            if c not in lang or not any(abs(r1[2]-q)<=1e-9*q for q in lang[c]):
                bad+=1
                if bad<6: print('MISMATCH',repr(c),r1,lang.get(c))
        if sc.parse(c)!=r1: bad+=1; print('IMPURE',c)
print('tot',tot,'nonzero',nz,'bad',bad)
