import sys, random, re; sys.path.insert(0,'/repo')
from lib_trainer.trainer_file_input import TrainerFileInput
rnd=random.Random(int(sys.argv[1]))
SEPS='\x0b\x0c\x1c\x1d\x1e\x85  '
def valid(p):
    return len(p)>0 and '\t' not in p and not any(ord(c)<0x20 for c in p) and ' ' not in p and '\x85' not in p
def ref_reader(data, enc, prefix):
    text=data.decode(enc, errors='surrogateescape')
    lines=text.split('\n')
    if lines and lines[-1]=='': lines.pop()
    out=[]; nerr=0
    for ln in lines:
        p=ln.rstrip('\r\n')
        n=1
        if prefix:
            t=p.lstrip().split(' ')
            if not re.fullmatch(r'[0-9]+', t[0]): continue
            n=int(t[0]); p=' '.join(t[1:])
        if p.startswith('$HEX[') and p.endswith(']'):
            try: p=bytes.fromhex(p[5:-1]).decode(enc)
            except Exception: nerr+=n; continue
        try: p.encode(enc)
        except UnicodeEncodeError: nerr+=n; continue
        if not valid(p): continue
        out+= [p]*n
    return out, nerr
alpha=list('abcXYZ019 !$[]#é№😀')+['пар','$HEX[','$HEX[41]','  ']
def gen_pw(enc):
    while True:
        s=''.join(rnd.choice(alpha) for _ in range(rnd.randint(1,6)))
        try: s.encode(enc); return s
        except UnicodeEncodeError: continue
bad=0; tot=0
for t in range(int(sys.argv[2])):
    enc=rnd.choice(['utf-8','latin-1','cp1251','ascii'])
    prefix=rnd.random()<.5
    eol=rnd.choice(['\n','\r\n'])
    chunks=[]
    for _ in range(rnd.randint(1,12)):
        r=rnd.random(); pw=gen_pw(enc); n=rnd.randint(1,4)
        body=pw if rnd.random()<.6 else '$HEX['+pw.encode(enc).hex()+']'
        if r<.7:
            if prefix: chunks.append((' '*rnd.randint(0,6)+str(n)+' '+body+eol).encode(enc))
            else: chunks += [(body+eol).encode(enc)]*n
        elif r<.78: chunks.append(eol.encode(enc))
        elif r<.86: chunks.append(((('3 ' if prefix else '')+'ab\tcd')+eol).encode(enc))
        elif r<.92: chunks.append((('3 ' if prefix else '')+'a\x01b'+eol).encode(enc))
        elif r<.96: chunks.append((('2 ' if prefix else '').encode(enc))+b'\xff\xfeab'+eol.encode(enc))
        else: chunks.append((('2 ' if prefix else '')+'$HEX[zz]'+eol).encode(enc))
    data=b''.join(chunks)
    open('/tmp/exp3/f.txt','wb').write(data)
    fi=TrainerFileInput('/tmp/exp3/f.txt',enc,prefix)
    got=list(fi.read_password())
    exp,nerr=ref_reader(data,enc,prefix)
    tot+=1
    if got!=exp or fi.num_passwords!=len(exp) or fi.num_encoding_errors!=nerr:
        bad+=1
        if bad<5: print('DIFF',enc,prefix,repr(data[:80]),got[:6],exp[:6],fi.num_encoding_errors,nerr)
print('tot',tot,'bad',bad)
