import sys; sys.path.insert(0,'/repo')
from lib_trainer.pcfg_password_parser import PCFGPasswordParser
from lib_trainer.detection_rules.multiword_detector import MultiWordDetector
from lib_trainer.detection_rules import keyboard_walk, email_detection, website_detection, year_detection, context_sensitive_detection, alpha_detection, digit_detection, other_detection
from lib_trainer.base_structure import base_structure_creation
from lib_trainer.trainer_file_input import check_valid
def segs(pw, mwd):
    sl, fw, kl = keyboard_walk.detect_keyboard_walk(pw)
    email_detection.email_detection(sl); website_detection.website_detection(sl)
    year_detection.year_detection(sl); context_sensitive_detection.context_sensitive_detection(sl)
    alpha_detection.alpha_detection(sl, mwd); digit_detection.digit_detection(sl); other_detection.other_detection(sl)
    return sl
mwd = MultiWordDetector(5,4,21)
for w in ['password','love','monkey']:
    for i in range(5): mwd.train(w)
for pw in ['İ@a.comX','İİwww.a.com1','aİb1','#12','lovepassword','19²³','Ǆx','ß','ẞ','abc.com/xyz','x@y.com.org','1qaz2wsx3edc','No.1!','a b','www.İ.com']:
    try:
        sl = segs(pw, mwd)
        print(repr(pw), sl, 'JOIN_OK' if ''.join(s for s,_ in sl)==pw else 'JOIN_MISMATCH')
    except Exception as e:
        print(repr(pw), 'EXC', type(e), e)
