import sys, io, contextlib, shutil, random; sys.path.insert(0,'/tmp/exp'); sys.path.insert(0,'/repo')
import lib_trainer.run_trainer as rt
from train_helper import train
from lib_scorer.omen_scorer import OmenScorer
from lib_guesser.omen.input_file_io import load_rules
cap={}
orig=rt.save_omen_rules_to_disk
def rec(omen_trainer, *a, **k):
    cap['ot']=omen_trainer; return orig(omen_trainer,*a,**k)
rt.save_omen_rules_to_disk=rec
from lib_trainer.omen.evaluate_password import find_omen_level
rnd=random.Random(1)
words=['password','love','monkey','abc','12345','qwerty','iloveyou','a1b2','zz','x']
bad=0; tot=0
for trial in range(60):
    ng=rnd.randint(2,5); asz=rnd.choice([3,5,10,100])
    pws=[rnd.choice(words)+rnd.choice(['','1','12','!']) for _ in range(rnd.randint(3,30))]
    open('/tmp/exp/pw11.txt','w').write('\n'.join(pws)+'\n')
    shutil.rmtree('/tmp/exp/R11',ignore_errors=True)
    try: r,_=train('/tmp/exp/pw11.txt','/tmp/exp/R11',ngram=ng,alphabet_size=asz)
    except Exception as e: print('train exc',repr(e), ng, asz, pws[:5]); continue
    if not r: print('train fail', ng, asz); continue
    ot=cap['ot']
    with contextlib.redirect_stdout(io.StringIO()), contextlib.redirect_stderr(io.StringIO()):
        sc=OmenScorer('/tmp/exp/R11','utf-8',9)
        g={}; assert load_rules('/tmp/exp/R11/Omen', g)
    def glevel(s):
        n=g['ngram']; L=len(s)
        lnl=None
        for lv,cnts in g['ln'].items():
            if L-(n-1) in cnts and L>=n: lnl=lv
        if lnl is None: return -1
        ipl=None
        for lv,ips in g['ip'].items():
            if s[:n-1] in ips: ipl=lv
        if ipl is None: return -1
        t=lnl+ipl
        for i in range(n-1,L):
            ctx=s[i-(n-1):i]; ch=s[i]; f=None
            for lv,chs in g['cp'].get(ctx,{}).items():
                if ch in chs: f=lv
            if f is None: return -1
            t+=f
        return t
    cands=set(pws)|{p[:k] for p in pws for k in range(0,7)}|{p+'~' for p in pws}|{p*3 for p in pws}
    for c in cands:
        a=find_omen_level(ot,c); b=sc.parse(c); d=glevel(c); tot+=1
        if not (a==b==d):
            bad+=1
            if bad<10: print('MISMATCH',repr(c),a,b,d,'ngram',ng,'asz',asz)
print('tot',tot,'bad',bad)
