import sys; sys.path.insert(0,'/tmp/exp/deps'); sys.path.insert(0,'/repo')
import atheris
with atheris.instrument_imports(include=['lib_trainer']):
    from lib_trainer.detection_rules import keyboard_walk, website_detection
n=[0]
def one(data):
    n[0]+=1
    fdp=atheris.FuzzedDataProvider(data)
    s=fdp.ConsumeUnicodeNoSurrogates(40)
    sl,_,_=keyboard_walk.detect_keyboard_walk(s) if s else ([],0,0)
    website_detection.website_detection(sl)
atheris.Setup(sys.argv, one); atheris.Fuzz()
