import sys, random, itertools; sys.path.insert(0,'/repo')
from lib_guesser.omen.markov_cracker import MarkovCracker
from lib_guesser.omen.optimizer import Optimizer
from collections import Counter
def ref_level(g, level):
    out=[]
    for ll, cnts in g['ln'].items():
        for n in cnts:
            for il, ips in g['ip'].items():
                for ip in ips:
                    rem = level-ll-il
                    if rem<0: continue
                    def rec(s, ctx, left, rem):
                        if left==0:
                            if rem==0: out.append(s)
                            return
                        for lv, chars in g['cp'].get(ctx,{}).items():
                            if lv<=rem:
                                for c in chars: rec(s+c,(ctx+c)[1:] if len(ctx)>0 else '',left-1,rem-lv)
                    rec(ip, ip, n, rem)
    return out
def gen_model(rnd):
    n=rnd.randint(2,4); alpha='abc'[:rnd.randint(2,3)]
    ctxs=[''.join(t) for t in itertools.product(alpha, repeat=n-1)]
    g={'ngram':n,'max_level':10,'ip':{l:[] for l in range(11)},'ln':{l:[] for l in range(11)},'cp':{}}
    maxl=rnd.choice([1,2,3,10])
    for c in ctxs:
        if rnd.random()<0.8: g['ip'][rnd.randint(0,maxl)].append(c)
    for c in ctxs:
        if rnd.random()<0.75:
            d={}
            for ch in alpha:
                if rnd.random()<0.7: d.setdefault(rnd.randint(0,maxl),[]).append(ch)
            if d: g['cp'][c]=d
    for k in range(1, rnd.randint(2,6)):   # number of cps 1..5
        if rnd.random()<0.8: g['ln'][rnd.randint(0,min(maxl,9))].append(k)
    return g
rnd=random.Random(int(sys.argv[1])); bad=0; tot=0; nontriv=0
for t in range(400):
    g=gen_model(rnd)
    if not any(g['ip'][l] for l in range(10)) or not any(g['ln'][l] for l in range(10)): continue
    opt=Optimizer(4)
    levels=list(range(0,9)); rnd.shuffle(levels)
    for L in levels+levels[:3]:
        ref=ref_level(g,L)
        if len(ref)>20000: continue
        mc=MarkovCracker(g,L,opt); got=[]
        # sometimes partial first
        if rnd.random()<0.3:
            for _ in range(rnd.randint(0,5)): mc.next_guess()
            mc=MarkovCracker(g,L,opt)
        while True:
            x=mc.next_guess()
            if x is None: break
            got.append(x)
            if len(got)>40000: break
        tot+=1; nontriv+= len(ref)>=2
        if Counter(got)!=Counter(ref):
            bad+=1
            if bad<4: print('BAD L',L,'n',g['ngram'],'got',len(got),'ref',len(ref), 'dups', [k for k,v in Counter(got).items() if v>1][:3], 'missing', list((Counter(ref)-Counter(got)))[:3], 'extra', list((Counter(got)-Counter(ref)))[:3])
print('tot',tot,'nontriv',nontriv,'bad',bad)
