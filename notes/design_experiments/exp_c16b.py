import sys, io, contextlib, shutil, random, math, types; sys.path.insert(0,'/tmp/exp3'); sys.path.insert(0,'/repo')
from fractions import Fraction as F
from guess_helper import load
import lib_guesser.pcfg_grammar as pgm
from train_helper import train
rnd=random.Random(1)
open('/tmp/exp3/pw.txt','w').write('\n'.join(['password1']*6+['Password1']*2+['love']*6+['lovepassword','1qaz2wsx','abc#1','test2019!','a b','monkey12','monkey','monkey','dragon!!','x7','y7','z8'])+'\n')
shutil.rmtree('/tmp/exp3/R',ignore_errors=True); train('/tmp/exp3/pw.txt','/tmp/exp3/R')
g=load('/tmp/exp3/R', skip_brute=True)
script=[]
shim=types.SimpleNamespace(random=lambda: script.pop(0), choice=random.choice, seed=random.seed)
pgm.random=shim
def nxt(x,d): return math.nextafter(x, d)
# base structure sweep
cum=[]; s=F(0)
for b in g.base: s+=F(b['prob']); cum.append(s)
print('exact base total', float(s), 'n', len(cum))
us=[0.0, nxt(1.0,0.0)]
for c in cum:
    f=float(c)
    us+=[f, nxt(f,0), nxt(f,2), f-1e-13, f+1e-13]
prev=F(0)
for c in cum: us.append(float((prev+c)/2)); prev=c
bad=0; tot=0
for u in us:
    if not (0<=u<1): continue
    # first position draws irrelevant: give 0.0 to rest
    script[:]=[u]+[0.0]*10
    try: pt=g.random_walk()
    except Exception as e: print('EXC at u',repr(u),repr(e)); bad+=1; continue
    tot+=1
    reps=[t for t,i in pt['pt']]
    exp_idx=[i for i,c in enumerate(cum) if F(u)<=c]
    near=[i for i,c in enumerate(cum) if abs(F(u)-c)<=F(1,10**12)]
    if not pt['pt']:
        print('EMPTY pt at u',repr(u), 'cum_last', float(cum[-1])); bad+=1; continue
    got=[i for i,b in enumerate(g.base) if b['replacements']==reps]
    ok = (exp_idx and exp_idx[0] in got) or any((j in got) or (j+1 in got) for j in near)
    if not ok: bad+=1; print('WRONG', repr(u), got, exp_idx[:1])
print('tot',tot,'bad',bad)
