import sys, io, contextlib, configparser, datetime; sys.path.insert(0,'/tmp/exp'); sys.path.insert(0,'/repo')
from synth import write_ruleset
from guess_helper import load
import lib_guesser.cracking_session as cs
import pcfg_guesser as pg

class FakeThread:
    def __init__(self, target=None, args=()): self.pcfg=args[1]; self.daemon=True
    def start(self): pass
    def is_alive(self): return not self.pcfg.should_exit
cs.threading.Thread = FakeThread

def session(rdir, savefile, load_session, quit_at=None, **kw):
    """run a session; quit after quit_at-th guess printed (sets should_exit). returns guesses"""
    g = load(rdir, **kw); g.save_file = savefile
    out=[]
    def pr(s):
        out.append(s)
        if quit_at is not None and len(out)==quit_at: g.should_exit=True
    g.print_guess = pr
    pi={'rule_name':'T','skip_brute':False,'skip_case':False}
    if load_session:
        sc = pg.load_save(savefile, pi)
    else:
        sc = pg.create_save_config(pi)
        sc.set('rule_info','uuid',g.ruleset_info['uuid'])
    sess = cs.CrackingSession(g, sc, savefile)
    with contextlib.redirect_stderr(io.StringIO()):
        sess.run(load_session=load_session)
    return out

# grammar: D1 (0.5) then M level1 then rest
omen={'ngram':2,'alphabet':'ab','ip':[(0,'a'),(1,'b')],'cp':[(0,'aa'),(1,'ab'),(0,'ba'),(1,'bb')],'ln':[10,0,1]+[10]*18}
write_ruleset('/tmp/exp/S7', {'D1':[('1',0.5),('2',0.3),('3',0.2)]}, [('D1',0.5),('M',0.5)], omen=omen, omen_prob=[(1,0.2),(2,0.05)], keyspace=[(1,5),(2,5)])
U = session('/tmp/exp/S7','/tmp/exp/u.sav',False)
print('U',U)
A = session('/tmp/exp/S7','/tmp/exp/a.sav',False, quit_at=3)
print('A',A)
print(open('/tmp/exp/a.sav').read().split('[guessing_info]')[1])
B = session('/tmp/exp/S7','/tmp/exp/a.sav',True, quit_at=len(U)-len(A)-2)
print('B',B)
C = session('/tmp/exp/S7','/tmp/exp/a.sav',True)
print('C',C)
print('---- no tie, second quit outside OMEN')
write_ruleset('/tmp/exp/S7', {'D1':[('1',0.5),('2',0.3),('3',0.15),('4',0.05)]}, [('D1',0.5),('M',0.5)], omen=omen, omen_prob=[(1,0.2),(2,0.05)], keyspace=[(1,5),(2,5)])
U = session('/tmp/exp/S7','/tmp/exp/u.sav',False); print('U',U)
A = session('/tmp/exp/S7','/tmp/exp/a.sav',False, quit_at=3); print('A',A)
B = session('/tmp/exp/S7','/tmp/exp/a.sav',True, quit_at=3); print('B',B)
print(open('/tmp/exp/a.sav').read().split('[guessing_info]')[1])
C = session('/tmp/exp/S7','/tmp/exp/a.sav',True); print('C',C)
