import sys, os, io, contextlib; sys.path.insert(0,'/repo')
from collections import Counter
from lib_trainer.save_pcfg_data import calculate_and_save_counter
from lib_trainer.trainer_file_input import check_valid
from lib_guesser.grammar_io import _load_from_file as gload
from lib_scorer.grammar_io import _load_from_file as sload
def roundtrip(values, enc='utf-8'):
    c = Counter()
    for i,v in enumerate(values): c[v] = len(values)-i+1   # distinct counts -> distinct probs (mostly)
    fn='/tmp/exp/rt.txt'
    calculate_and_save_counter(fn, c, enc)
    sec=[]
    with contextlib.redirect_stderr(io.StringIO()):
        ok = gload(sec, fn, enc)
    got = [v for it in sec for v in it['values']]
    sc = Counter()
    with contextlib.redirect_stderr(io.StringIO()):
        ok2 = sload(sc, fn, enc)
    return ok, got, ok2, list(sc)
bad=[]
def check(cps):
    vals=[]
    for cp in cps:
        ch=chr(cp)
        for v in (ch, 'a'+ch, ch+'b', 'a'+ch+'b'):
            vals.append(v)
    ok,got,ok2,sgot = roundtrip(vals)
    return ok and got==vals and ok2 and sgot==vals
def bisect(cps):
    if check(cps): return
    if len(cps)==1: bad.append(cps[0]); return
    m=len(cps)//2; bisect(cps[:m]); bisect(cps[m:])
cands=[cp for cp in range(0x110000) if not (0xD800<=cp<=0xDFFF) and check_valid(chr(cp))]
print(len(cands))
B=2000
for i in range(0,len(cands),B): bisect(cands[i:i+B])
print('bad code points:', [hex(b) for b in bad])
