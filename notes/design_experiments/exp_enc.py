import sys, shutil; sys.path.insert(0,'/tmp/exp'); sys.path.insert(0,'/repo')
from train_helper import train
from guess_helper import load, run_all
from lib_scorer.pcfg_password_scorer import PCFGPasswordScorer
from lib_scorer.grammar_io import load_grammar
for enc in ['latin-1','cp1251','utf-16']:
    pws = ['café12']*6+['cafés']*3+['naïve!']*2+['abcdé']
    if enc=='cp1251': pws=['пароль12']*5+['привет']*3
    with open('/tmp/exp/pwe.txt','w',encoding=enc) as f:
        for p in pws: f.write(p+'\n')
    out='/tmp/exp/RE'; shutil.rmtree(out, ignore_errors=True)
    r,log = train('/tmp/exp/pwe.txt', out, encoding=enc)
    print(enc,'train',r)
    try:
        g=load(out, skip_brute=True); res=run_all(g)
        print(' guesser', sorted(set(x for _,_,gs,_ in res for x in gs))[:6])
    except Exception as e: print(' guesser EXC', repr(e))
    try:
        s=PCFGPasswordScorer(); print(' scorer load', load_grammar(s,out)); s.create_multiword_detector(); s.create_omen_scorer(out, 9)
        print(' score', s.parse(pws[0]))
    except Exception as e: print(' scorer EXC', repr(e)[:200])
