import sys, shutil, os, filecmp; sys.path.insert(0,'/tmp/exp'); sys.path.insert(0,'/repo')
from train_helper import train
from lib_trainer.trainer_file_input import TrainerFileInput
def tree(d):
    out={}
    for r,_,fs in os.walk(d):
        for f in fs:
            p=os.path.join(r,f); b=open(p,'rb').read()
            if f=='config.ini': b=b'\n'.join(l for l in b.split(b'\n') if not l.startswith(b'uuid') and not l.startswith(b'filename'))
            out[os.path.relpath(p,d)]=b
    return out
pws=[('password1',4),(' lead',2),('trail ',3),('Пароль12',2),('a b',1),('$HEX[41]',1),('x',2)]
with open('/tmp/exp/p_plain.txt','w',encoding='utf-8') as f:
    for p,n in pws:
        for i in range(n): f.write(p+'\n')
with open('/tmp/exp/p_cnt.txt','w',encoding='utf-8') as f:
    for p,n in pws: f.write('%7d %s\n'%(n,p))
with open('/tmp/exp/p_hex.txt','w',encoding='utf-8') as f:
    for p,n in pws:
        for i in range(n): f.write('$HEX['+p.encode('utf-8').hex()+']\r\n' if p!='$HEX[41]' else p+'\n')
print(list(TrainerFileInput('/tmp/exp/p_plain.txt','utf-8').read_password()))
print(list(TrainerFileInput('/tmp/exp/p_cnt.txt','utf-8',True).read_password()))
print(list(TrainerFileInput('/tmp/exp/p_hex.txt','utf-8').read_password()))
ts=[]
for nm,pc in (('p_plain',False),('p_cnt',True),('p_hex',False),('p_plain',False)):
    out='/tmp/exp/RC_'+nm; shutil.rmtree(out,ignore_errors=True)
    print(nm, train('/tmp/exp/%s.txt'%nm,out,prefixcount=pc)[0]); ts.append(tree(out))
for i in (1,2,3):
    diff=[k for k in set(ts[0])|set(ts[i]) if ts[0].get(k)!=ts[i].get(k)]
    print('diff vs plain', i, diff)
print(list(TrainerFileInput('/tmp/exp/sep.txt','utf-8').read_password()) if os.path.exists('/tmp/exp/sep.txt') else '')
open('/tmp/exp/sep.txt','w',encoding='utf-8').write('ab\x1ccd\nef gh\nij kl\nmn\rop\nqq\tr\n\nzz\n')
print(list(TrainerFileInput('/tmp/exp/sep.txt','utf-8').read_password()))
