import sys, io, contextlib; sys.path.insert(0,'/tmp/exp'); sys.path.insert(0,'/repo')
from synth import write_ruleset
from guess_helper import load
import lib_guesser.cracking_session as cs
import pcfg_guesser as pg
class FakeThread:
    def __init__(self, target=None, args=()): self.pcfg=args[1]; self.daemon=True
    def start(self): pass
    def is_alive(self): return not self.pcfg.should_exit
class Shim: Thread=FakeThread
cs.threading = Shim
def session(rdir, limit=None, **kw):
    g = load(rdir, **kw); g.save_file='/tmp/exp/l.sav'
    pi={'rule_name':'T','skip_brute':False,'skip_case':False}
    sc = pg.create_save_config(pi); sc.set('rule_info','uuid',g.ruleset_info['uuid'])
    sess = cs.CrackingSession(g, sc, '/tmp/exp/l.sav')
    buf=io.StringIO()
    with contextlib.redirect_stderr(io.StringIO()), contextlib.redirect_stdout(buf):
        sess.run(load_session=False, limit=limit)
    return buf.getvalue().split('\n')[:-1]
omen={'ngram':2,'alphabet':'ab','ip':[(0,'a'),(1,'b')],'cp':[(0,'aa'),(1,'ab'),(0,'ba'),(1,'bb')],'ln':[10,0,1]+[10]*18}
write_ruleset('/tmp/exp/S9', {'D1':[('1',0.5),('2',0.25),('3',0.25)],'A2':[('ab',0.5),('cd',0.5)],'C2':[('LL',0.5),('UL',0.25),('LU',0.25)]}, [('A2D1',0.4),('M',0.4),('D1A2',0.2)], omen=omen, omen_prob=[(1,0.2),(2,0.05)], keyspace=[(1,5),(2,5)])
U=session('/tmp/exp/S9')
print(len(U), U[:12])
bad=[]
for n in range(1,len(U)+3):
    o=session('/tmp/exp/S9', limit=n)
    if o!=U[:n]: bad.append((n,len(o)))
print('bad',bad)
