import sys, io, contextlib, shutil, random, os; sys.path.insert(0,'/tmp/exp3'); sys.path.insert(0,'/repo')
exec(open('/tmp/exp3/exp_c03.py').read().split("bad=0; tot=0; skipped=0")[0])
from lib_princeling.wordlist_generation import create_prince_wordlist
from collections import Counter
def readf(p):
    return [l.rstrip('\n').split('\t') for l in open(p,encoding='utf-8') if l.strip('\n')]
bad=0; tot=0
for trial in range(int(sys.argv[2])):
    base=[gen_pw() for _ in range(rnd.randint(1,10))]+rnd.choice([[],['bob@gmail.com']*2,['www.abc.com1']])
    pws=[p for p in base for _ in range(rnd.choice([1,2,5]))]
    open('/tmp/exp3/pw.txt','w',encoding='utf-8').write('\n'.join(pws)+'\n')
    shutil.rmtree('/tmp/exp3/R',ignore_errors=True)
    try: r,_=train('/tmp/exp3/pw.txt','/tmp/exp3/R')
    except Exception: continue
    if not r: continue
    R='/tmp/exp3/R'
    # model from files (own parser: plain split on \n and \t)
    dirs={'A':'Alpha','D':'Digits','O':'Other','K':'Keyboard','Y':'Years','X':'Context'}
    exp=Counter(); probs={}
    for st,p in readf(R+'/Prince/grammar.txt'):
        p=float(p); c=st[0]
        if c=='E': items=[(v,float(q)) for v,q in readf(R+'/Emails/email_providers.txt')]
        elif c=='W': items=[(v,float(q)) for v,q in readf(R+'/Websites/website_hosts.txt')]
        else: items=[(v,float(q)) for v,q in readf('%s/%s/%s.txt'%(R,dirs[c],st[1:]))]
        for v,q in items:
            if c=='A':
                for m,mq in readf('%s/Capitalization/%s.txt'%(R,st[1:])):
                    w=''.join(ch.upper() if mm=='U' else ch for ch,mm in zip(v,m))
                    exp[w]+=1; probs.setdefault(w,[]).append(p*q*float(mq))
            else: exp[v]+=1; probs.setdefault(v,[]).append(p*q)
    g=load(R, base_structure_folder='Prince'); out=[]; g.print_guess=lambda s: out.append(s)
    with contextlib.redirect_stderr(io.StringIO()): create_prince_wordlist(g, None)
    tot+=1
    if Counter(out)!=exp: bad+=1; print('LANG DIFF', (Counter(out)-exp), (exp-Counter(out)))
    # order: assign each output its max remaining prob greedily
    rem={k:sorted(v,reverse=True) for k,v in probs.items()}
    seq=[rem[w].pop(0) for w in out]
    if any(seq[i]<seq[i+1]*(1-1e-12) for i in range(len(seq)-1)): bad+=1; print('ORDER')
    # file vs stdout
    g2=load(R, base_structure_folder='Prince'); g2.save_to_file('/tmp/exp3/out.txt')
    with contextlib.redirect_stderr(io.StringIO()): create_prince_wordlist(g2, None)
    g2.shutdown()
    if open('/tmp/exp3/out.txt',encoding='utf-8').read().split('\n')[:-1]!=out: bad+=1; print('FILE DIFF')
print('tot',tot,'bad',bad)
