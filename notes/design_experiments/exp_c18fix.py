import sys, io, contextlib, shutil, random, inspect; sys.path.insert(0,'/tmp/exp2'); sys.path.insert(0,'/repo')
import lib_trainer.omen.evaluate_password as ev
import lib_trainer.run_trainer as rt
src=inspect.getsource(ev.calc_omen_keyspace)
if len(sys.argv)>1:
    src=src.replace("if level_minus_ip > 0:","if level_minus_ip >= 0:").replace("if length <= omen_trainer.ngram:","if length < omen_trainer.ngram:")
    ns=dict(ev.__dict__); exec(src, ns); rt.calc_omen_keyspace=ns['calc_omen_keyspace']
from train_helper import train
from lib_guesser.omen.input_file_io import load_rules
from lib_guesser.omen.markov_cracker import MarkovCracker
from lib_guesser.omen.optimizer import Optimizer
rnd=random.Random(3); bad=0; tot=0
for trial in range(40):
    ng=rnd.randint(2,4)
    alpha='ab' if rnd.random()<.5 else 'abc'
    pws=[''.join(rnd.choice(alpha) for _ in range(rnd.choice([ng,ng,ng+1,ng+2,3,5]))) for _ in range(rnd.randint(3,25))]
    open('/tmp/exp2/pw.txt','w').write('\n'.join(pws)+'\n')
    shutil.rmtree('/tmp/exp2/R',ignore_errors=True)
    try: r,_=train('/tmp/exp2/pw.txt','/tmp/exp2/R',ngram=ng)
    except Exception as e: continue
    if not r: continue
    g={}
    with contextlib.redirect_stdout(io.StringIO()): assert load_rules('/tmp/exp2/R/Omen',g)
    opt=Optimizer(4)
    for line in open('/tmp/exp2/R/Omen/omen_keyspace.txt'):
        lv,ks=map(int,line.split())
        if ks>50000: continue
        mc=MarkovCracker(g,lv,opt); n=0; seen=set()
        while True:
            x=mc.next_guess()
            if x is None: break
            seen.add(x); n+=1
            if n>100000: break
        if n>100000: continue
        tot+=1
        if len(seen)!=ks:
            bad+=1
            if bad<4: print('MISMATCH ngram',ng,'level',lv,'saved',ks,'real',len(seen))
print('tot',tot,'bad',bad,'patched',len(sys.argv)>1)
