import sys, time, shutil; sys.path.insert(0,'/tmp/exp'); sys.path.insert(0,'/repo')
from train_helper import train
from synth import write_ruleset
from guess_helper import load, run_all
t=time.time()
for i in range(20):
    shutil.rmtree('/dev/shm/RT',ignore_errors=True); train('/tmp/exp/pw1.txt','/dev/shm/RT')
print('train ms', (time.time()-t)/20*1000)
t=time.time()
for i in range(50):
    write_ruleset('/dev/shm/RS', {'D1':[('1',0.6),('2',0.4)], 'O1':[('!',0.7),('?',0.3)],'A3':[('abc',0.5),('xyz',0.25)],'C3':[('LLL',0.9),('ULL',0.1)]}, [('A3D1O1',0.75),('D1',0.25)])
    g=load('/dev/shm/RS'); run_all(g)
print('synth+load+run ms', (time.time()-t)/50*1000)
t=time.time()
g=load('/dev/shm/RT'); r=run_all(g, expand=False, maxn=None) if False else None
print('load ms', (time.time()-t)*1000)
