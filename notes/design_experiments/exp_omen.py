import sys; sys.path.insert(0,'/repo')
from lib_guesser.omen.input_file_io import load_rules
from lib_guesser.omen.markov_cracker import MarkovCracker
from lib_guesser.omen.optimizer import Optimizer
from collections import Counter
def ref_level(g, level):
    out=[]
    for ll, cnts in g['ln'].items():
        for n in cnts:
            for il, ips in g['ip'].items():
                for ip in ips:
                    rem = level-ll-il
                    if rem<0: continue
                    def rec(s, ctx, left, rem):
                        if left==0:
                            if rem==0: out.append(s)
                            return
                        for lv, chars in g['cp'].get(ctx,{}).items():
                            if lv<=rem:
                                for c in chars: rec(s+c,(ctx+c)[1:],left-1,rem-lv)
                    rec(ip, ip, n, rem)
    return out
rd=sys.argv[1]
g={}; assert load_rules(rd+'/Omen', g)
opt=Optimizer(4)
ks=dict(l.split() for l in open(rd+'/Omen/omen_keyspace.txt'))
for level in range(0,8):
    mc=MarkovCracker(g, level, opt)
    got=[]
    while True:
        x=mc.next_guess()
        if x is None: break
        got.append(x)
        if len(got)>200000: break
    ref=ref_level(g, level)
    print(level, 'cracker',len(got),'distinct',len(set(got)),'ref',len(ref),'eq',Counter(got)==Counter(ref),'keyspace file',ks.get(str(level)))
