"""Runs ONE pcfg_guesser.main() session under the harness-owned keyboard in a process of its own (own PYTHONHASHSEED, own
interpreter state) and prints the observations as JSON: used for histories whose runs are separate processes, as a user's are."""
import json
import sys


def main():
    spec = json.loads(sys.stdin.read())
    from pv import session
    events = [(tuple(p), e) for p, e in spec.get('events', [])]
    try:
        r = session.run_main(spec['root'], spec['argv'], events, clock_step=spec.get('clock_step'), stdin_isatty=spec.get('stdin_isatty'))
    except BaseException as e:          # noqa: reported to the parent, which decides what it means
        import traceback
        from pv import core
        sys.__stdout__.write(json.dumps({'child_exception': traceback.format_exc()[-1500:], 'in_repo': bool(core.crashed_in_repo(e))}))
        return
    out = {k: getattr(r, k, None) for k in ('lines', 'stderr', 'pops', 'guess_pop', 'sav', 'error', 'delivered', 'thread_alive_at_end', 'exhausted',
                                            'saves', 'sav_changed', 'saved_on_quit', 'thread_errors')}
    sys.__stdout__.write(json.dumps(out))


if __name__ == '__main__':
    main()
