"""atheris (libFuzzer) targets with the semantic oracle inside the target. Run as a separate process:

    python -m pv.fuzz_target c05|c19 <out.json> <stats.json> [libFuzzer args...]

On a violation the case is written to <out.json> and the exception is re-raised so that libFuzzer saves the input.
State is rebuilt at the top of every iteration (fresh parser / fresh reader), so failures reproduce from the input alone.
"""
import json
import os
import sys

import atheris

which, out_path, stats_path = sys.argv[1], sys.argv[2], sys.argv[3]
sys.argv = [sys.argv[0]] + sys.argv[4:]

from pv import core  # noqa: E402

core.use_repo()
with atheris.instrument_imports(include=['lib_trainer']):
    import lib_trainer.pcfg_password_parser  # noqa: F401
    import lib_trainer.trainer_file_input  # noqa: F401
    import lib_trainer.detection_rules.multiword_detector  # noqa: F401

from pv.core import Rec, Violation  # noqa: E402
from pv import segoracle, trainer  # noqa: E402

STATS = {'execs': 0, 'accepted': 0, 'nontrivial': 0, 'samples': []}
_seen = set()


def _dump_stats():
    with open(stats_path + '.tmp', 'w') as f:
        json.dump(dict(STATS, distinct_nontrivial=len(_seen)), f)
    os.replace(stats_path + '.tmp', stats_path)


def _fail(v):
    with open(out_path, 'w') as f:
        json.dump({'kind': v.kind, 'message': v.message, 'case': v.case}, f)
    _dump_stats()


HISTORY = [['password', 6], ['love', 6], ['iloveyou', 5], ['monkey', 5], ['pass', 5], ['word', 5]]


def target_c05(data):
    from pv.checks import c05
    STATS['execs'] += 1
    fdp = atheris.FuzzedDataProvider(data)
    s = fdp.ConsumeUnicodeNoSurrogates(48)
    if not c05.check_valid(s):
        return
    STATS['accepted'] += 1
    case = {'history': HISTORY, 'pretrain': ['test'], 'passwords': [s]}
    mw_real, parser, model = c05.build(case)
    rec = Rec('fuzz')
    try:
        c05.check_one(case, mw_real, parser, model, s, rec)
    except Violation as v:
        _fail(v)
        raise
    if rec.nontrivial:
        h = next(iter(rec.nontrivial))
        if h not in _seen:
            _seen.add(h)
            if len(STATS['samples']) < 5:
                STATS['samples'].append(s)
    if STATS['execs'] % 2000 == 0:
        _dump_stats()


_DIR = [None]


def target_c19(data):
    from pv.checks import c19
    STATS['execs'] += 1
    if len(data) < 2:
        return
    prefix = bool(data[0] & 1)
    enc = ['utf-8', 'latin-1', 'cp1251', 'ascii'][(data[0] >> 1) & 3]
    body = bytes(data[1:])
    if not body.endswith(b'\n'):
        body += b'\n'          # domain: text files whose last line is terminated (codecs drops a truncated trailing sequence)
    if _DIR[0] is None:
        _DIR[0] = core.scratch_dir('fz19')
    path = os.path.join(_DIR[0], 'f.txt')
    with open(path, 'wb') as f:
        f.write(body)
    case = {'fuzz_bytes': body.hex(), 'encoding': enc, 'prefix': prefix}
    if prefix:
        # domain: counts are plain ASCII digits (int() also accepts '+3', '1_0', other scripts' digits, negatives)
        import re
        for line in body.decode(enc, errors='surrogateescape').split('\n'):
            tok = line.rstrip('\r\n').lstrip().split(' ')[0]
            if not re.fullmatch(r'[0-9]{1,3}', tok):
                try:
                    int(tok)
                    return
                except ValueError:
                    pass
    try:
        got = c19.real_read(path, enc, prefix)
    except Exception as e:
        if core.crashed_in_repo(e):
            import traceback
            v = Violation('crash:' + type(e).__name__, traceback.format_exc()[-800:], case)
            _fail(v)
        raise
    want = c19.reference_read(body, enc, prefix)
    STATS['accepted'] += 1
    if want[0] and (b'$HEX[' in body or prefix) and len(want[0]) >= 2:
        h = hash(body)
        if h not in _seen:
            _seen.add(h)
            if len(STATS['samples']) < 5:
                STATS['samples'].append(body[:80].decode('latin-1'))
    if got[0] != want[0] or got[1] != want[1] or got[2] != want[2]:
        v = Violation('reader_vs_reference', f'encoding {enc} prefix {prefix}: real reader {got[0][:4]!r} n={got[1]} err={got[2]}, reference {want[0][:4]!r} n={want[1]} err={want[2]}', case)
        _fail(v)
        raise v
    if STATS['execs'] % 2000 == 0:
        _dump_stats()


if __name__ == '__main__':
    atheris.Setup(sys.argv, {'c05': target_c05, 'c19': target_c19}[which])
    atheris.Fuzz()
