"""Runs the real pcfg_guesser.main() / CrackingSession in-process with a harness-owned keyboard.

The real `keypress` function runs in a real thread; only the three names it uses from the module globals of
lib_guesser.cracking_session are replaced for the duration of one run:
  input  -> blocks on a harness queue (the harness decides when a line, EOF or an error arrives),
  time   -> sleep() is a no-op (and, with clock_step, the status report's clock is a counter owned by the harness),
  threading -> Thread subclass that remembers the instance (so the harness can wait for it to settle).
Events are delivered at named loop positions; after delivering one the harness waits until the thread is
blocked in input() again or has terminated, so every schedule is reproducible.

Positions: ('before_pop', i) / ('after_pop', i): around the i-th call of PcfgQueue.next (1-based);
           ('before_expand', i): the i-th popped pre-terminal has passed the quit check, is the status report's current one and
                                 create_guesses is about to be entered for it;
           ('guess', j): right after the j-th guess of this run was written (1-based);
           ('omen_next', j): inside a Markov level, while the generator is asked for what will be the j-th guess of the
                             run (after the quit check that followed guess j-1, before guess j is written).
Events: '' (status), 'h', 'q', or {'raise': 'EOFError'|'RuntimeError'|'OSError'}.
"""
import configparser
import contextlib
import importlib
import io
import os
import queue
import shutil
import sys
import threading
import types

from . import core

core.use_repo()


class _Sched:
    def __init__(self, events):
        self.events = {tuple(k): v for k, v in events}
        self.q = queue.Queue()
        self.blocked = threading.Event()
        self.thread = None
        self.delivered = []
        self.thread_errors = []
        self.fail_status = False
        self.snap = None
        # fine-grained interleaving: the keyboard thread executes `step_lines` lines of repository code per loop position
        self.stepping = False
        self.step_lines = 1
        self.budget = 0
        self.go = threading.Semaphore(0)
        self.paused = threading.Event()
        self.step_entry = None

    # ---- tracing of the keyboard thread (installed by the Thread subclass inside that thread only)
    def trace(self, frame, event, arg):
        if not frame.f_code.co_filename.startswith(core.REPO):
            return None
        return self._local

    def _local(self, frame, event, arg):
        if event == 'line' and self.stepping:
            self.budget -= 1
            if self.budget <= 0:
                self.paused.set()
                self.go.acquire()
                self.budget = self.step_lines
        return self._local

    def _wait_settled(self):
        """Until the keyboard thread is paused at a line boundary, blocked in input() again, or has ended."""
        t = self.thread
        while t.is_alive() and not self.blocked.is_set() and not self.paused.wait(0.0005):
            pass
        if not t.is_alive() or self.blocked.is_set():
            self._end_stepping()

    def _end_stepping(self):
        if self.stepping:
            self.stepping = False
            if self.step_entry is not None:
                self.step_entry[4] = bool(self.thread and self.thread.is_alive())
                self.step_entry = None
            self.go.release()          # in case the thread is parked at a line boundary

    def tick(self):
        """One slice for the keyboard thread (called by the generation loop at every position while stepping)."""
        if not self.stepping:
            return
        if self.paused.is_set():
            self.paused.clear()
            self.go.release()
        self._wait_settled()

    def finish_stepping(self):
        n = 0
        while self.stepping and n < 100000:
            self.tick()
            n += 1

    def input(self, *a):
        self.blocked.set()
        ev = self.q.get()
        if isinstance(ev, BaseException):
            raise ev
        return ev

    def deliver(self, ev, pos):
        t = self.thread
        self.finish_stepping()
        snap = self.snap() if self.snap else None
        if t is None or not t.is_alive():
            self.delivered.append([list(pos), ev, 'thread_not_alive', snap, False])
            return
        # wait until the thread is actually waiting for input
        while t.is_alive() and not self.blocked.wait(0.001):
            pass
        if not t.is_alive():
            self.delivered.append([list(pos), ev, 'thread_not_alive', snap, False])
            return
        self.blocked.clear()
        if isinstance(ev, dict) and 'interleaved' in ev:
            # hand the request over and let the thread work on it a few lines at a time, in step with the generation loop
            self.step_lines = max(1, int(ev.get('lines', 1)))
            self.budget = self.step_lines
            self.paused.clear()
            self.stepping = True
            entry = [list(pos), ev, 'ok', snap, True]
            self.step_entry = entry
            self.delivered.append(entry)
            self.q.put(ev['interleaved'])
            self._wait_settled()
            return
        if isinstance(ev, dict) and 'status_error' in ev:
            self.fail_status = True          # the next status print fails (e.g. stderr closed)
            self.q.put('')
        elif isinstance(ev, dict):
            exc = {'EOFError': EOFError(), 'RuntimeError': RuntimeError('input(): lost sys.stdin'),
                   'OSError': OSError(9, 'Bad file descriptor'), 'ValueError': ValueError('I/O operation on closed file')}[ev['raise']]
            self.q.put(exc)
        else:
            self.q.put(ev)
        while t.is_alive() and not self.blocked.wait(0.001):
            pass
        self.delivered.append([list(pos), ev, 'ok', snap, t.is_alive()])

    def at(self, pos):
        if self.stepping:
            self.tick()
        ev = self.events.get(pos)
        if ev is not None:
            self.deliver(ev, pos)

    def release(self):
        t = self.thread
        if self.stepping:
            # the run is over: let the thread finish what it was doing, unthrottled
            self.stepping = False
            self.go.release()
            while t is not None and t.is_alive() and not self.blocked.wait(0.001):
                pass
            if self.step_entry is not None:
                self.step_entry[4] = bool(t and t.is_alive())
        if t is not None and t.is_alive():
            self.q.put(EOFError())
            t.join(2)


class Result:
    def __init__(self):
        self.lines = []          # stdout lines
        self.stdout = ''
        self.stderr = ''
        self.pops = []           # (pt tuple, prob) per successful pop
        self.guess_pop = []      # pop index (1-based, 0 = before the first pop) during which each guess was written
        self.sav = None          # {section: {k: v}} of the save file after the run
        self.error = None
        self.delivered = []
        self.thread_alive_at_end = None
        self.omen_guess_pop = []
        self.exhausted = False   # the queue reported that nothing is left (the run completed)


def read_sav(path):
    if not os.path.exists(path):
        return None
    c = configparser.ConfigParser()
    try:
        c.read(path)
    except configparser.Error:
        return {'__unparsable__': open(path, errors='replace').read()}
    return {s: dict(c[s]) for s in c.sections()}


def run_main(root, argv, events=(), fail_stderr_after=None, clock_step=None, stdin_isatty=None, stdout_fail_after=None):
    """Runs the real pcfg_guesser.main() with __file__ pointing into `root` (so Rules/ and *.sav live there).

    root: scratch directory containing Rules/<name>/...; argv: command line without the program name.
    """
    import lib_guesser.cracking_session as cs
    import lib_guesser.priority_queue as pq
    import lib_guesser.pcfg_grammar as pgm
    import lib_guesser.status_report as sr
    pg = importlib.import_module('pcfg_guesser')
    res = Result()
    sched = _Sched(events)
    real_thread = threading.Thread

    class T(real_thread):
        def __init__(s, *a, **k):
            super().__init__(*a, **k)
            sched.thread = s

        def run(s):
            sys.settrace(sched.trace)
            try:
                super().run()
            finally:
                sys.settrace(None)

    saved = {'threading': cs.threading, 'time': cs.time, 'input': cs.__dict__.get('input', None),
             'next': pq.PcfgQueue.next, 'print_guess': pgm.PcfgGrammar.print_guess, 'file': pg.__file__,
             'argv': sys.argv, 'hook': threading.excepthook, 'status': sr.StatusReport.print_status}
    state = {'pops': 0, 'guesses': 0}
    orig_next = pq.PcfgQueue.next
    orig_print = pgm.PcfgGrammar.print_guess

    def next_(self):
        state['pops'] += 1
        i = state['pops']
        sched.at(('before_pop', i))
        r = orig_next(self)
        if r is not None:
            res.pops.append((tuple((a, b) for a, b in r['pt']), r['prob']))
        else:
            res.exhausted = True
        sched.at(('after_pop', i))
        return r

    def print_(self, guess):
        orig_print(self, guess)
        state['guesses'] += 1
        res.guess_pop.append(len(res.pops))
        sched.at(('guess', state['guesses']))

    orig_create = pgm.PcfgGrammar.create_guesses
    saved['create'] = orig_create
    state['expands'] = 0

    def create_(self, pt, *a, **k):
        # the i-th pre-terminal of this run has been made the "current" one of the status report and is about to be expanded
        state['expands'] += 1
        sched.at(('before_expand', state['expands']))
        return orig_create(self, pt, *a, **k)

    import lib_guesser.omen.markov_cracker as mc
    orig_mc_next = mc.MarkovCracker.next_guess
    saved['mc_next'] = orig_mc_next

    def mc_next(self):
        # a point between two Markov guesses: after the quit check of the previous guess, before the next one is written
        sched.at(('omen_next', state['guesses'] + 1))
        return orig_mc_next(self)

    orig_save = cs.CrackingSession._save_session
    saved['save'] = orig_save
    res.saves = []

    def save_(self):
        res.saves.append([state['pops'], state['guesses']])
        return orig_save(self)

    orig_status = sr.StatusReport.print_status

    def status_(self, pcfg):
        if sched.fail_status:
            sched.fail_status = False
            raise OSError(5, 'Input/output error (simulated: stderr is gone)')
        return orig_status(self, pcfg)

    sched.snap = lambda: [state['pops'], state['guesses']]

    def hook(args):
        sched.thread_errors.append(repr(args.exc_value))

    def _sav_text():
        name = 'default_run'
        av = list(argv)
        for i, x in enumerate(av):
            if x in ('-s', '--session') and i + 1 < len(av):
                name = av[i + 1]
        try:
            return open(os.path.join(root, name + '.sav'), 'rb').read()
        except OSError:
            return None

    sav_before = _sav_text()
    out, err = io.StringIO(), io.StringIO()
    if stdout_fail_after is not None:
        class _GoneConsumer(io.StringIO):
            # a stdout whose reader goes away: accepts `stdout_fail_after` complete lines, every later write fails (EPIPE)
            def write(self_, text):
                if self_.getvalue().count('\n') >= stdout_fail_after:
                    raise BrokenPipeError(32, 'Broken pipe (harness: the consumer of stdout went away)')
                return super().write(text)
        out = _GoneConsumer()
    saved['sr_time'] = sr.time
    if clock_step is not None:
        # harness-owned clock for the status report: every reading is clock_step seconds after the previous one, so elapsed
        # times of minutes, hours or days occur in runs that really take milliseconds
        tick = {'t': 1000.0}

        def _now():
            tick['t'] += clock_step
            return tick['t']

        class _Clock:
            perf_counter = staticmethod(_now)
            time = staticmethod(_now)
            monotonic = staticmethod(_now)
            process_time = staticmethod(_now)
            sleep = staticmethod(lambda s_: None)

            def __getattr__(self, name):
                return getattr(saved['sr_time'], name)
    saved['stdin'] = sys.stdin
    if stdin_isatty is not None:
        class _Stdin:
            # what the process would see as sys.stdin: a terminal or not (the keyboard itself is the harness' input())
            closed = False
            encoding = 'utf-8'

            def isatty(self):
                return bool(stdin_isatty)

            def readline(self, *a):
                return ''

            def read(self, *a):
                return ''

            def fileno(self):
                raise OSError('no file descriptor (harness stdin)')
    try:
        if stdin_isatty is not None:
            sys.stdin = _Stdin()
        if clock_step is not None:
            sr.time = _Clock()
        cs.threading = types.SimpleNamespace(Thread=T, main_thread=threading.main_thread)
        class _NoSleep:
            # the session module's `time`: sleep() returns at once, everything else is the real module
            sleep = staticmethod(lambda s_: None)

            def __getattr__(self, name):
                return getattr(saved['time'], name)
        cs.time = _NoSleep()
        cs.input = sched.input
        pq.PcfgQueue.next = next_
        pgm.PcfgGrammar.print_guess = print_
        sr.StatusReport.print_status = status_
        pgm.PcfgGrammar.create_guesses = create_
        mc.MarkovCracker.next_guess = mc_next
        cs.CrackingSession._save_session = save_
        pg.__file__ = os.path.join(root, 'pcfg_guesser.py')
        sys.argv = ['pcfg_guesser.py'] + list(argv)
        threading.excepthook = hook
        with contextlib.redirect_stdout(out), contextlib.redirect_stderr(err):
            try:
                pg.main()
            except SystemExit as e:
                res.error = 'SystemExit(%r)' % (e.code,)
            finally:
                res.thread_alive_at_end = bool(sched.thread and sched.thread.is_alive())
                sched.release()
    finally:
        sched.release()
        cs.threading = saved['threading']
        cs.time = saved['time']
        sr.time = saved['sr_time']
        sys.stdin = saved['stdin']
        if saved['input'] is None:
            cs.__dict__.pop('input', None)
        else:
            cs.input = saved['input']
        pq.PcfgQueue.next = saved['next']
        pgm.PcfgGrammar.print_guess = saved['print_guess']
        sr.StatusReport.print_status = saved['status']
        pgm.PcfgGrammar.create_guesses = saved['create']
        mc.MarkovCracker.next_guess = saved['mc_next']
        cs.CrackingSession._save_session = saved['save']
        pg.__file__ = saved['file']
        sys.argv = saved['argv']
        threading.excepthook = saved['hook']
    res.stdout = out.getvalue()
    res.stderr = err.getvalue()
    res.lines = res.stdout.split('\n')
    if res.lines and res.lines[-1] == '':
        res.lines.pop()
    res.delivered = sched.delivered
    name = 'default_run'
    av = list(argv)
    for i, x in enumerate(av):
        if x in ('-s', '--session') and i + 1 < len(av):
            name = av[i + 1]
    res.sav = read_sav(os.path.join(root, name + '.sav'))
    res.sav_changed = _sav_text() != sav_before      # the save file was (re)written during this run
    # the session state was saved after generation had started (the save at the start of a new session does not count)
    res.saved_on_quit = res.sav_changed and any(p >= 1 for p, g in res.saves)
    res.thread_errors = sched.thread_errors
    return res


def run_main_subprocess(root, argv, events=(), hashseed=None, clock_step=None, stdin_isatty=None, timeout=300):
    """run_main() in a child process with its own PYTHONHASHSEED (None = random, as for a user). Returns a Result."""
    import json
    import subprocess
    env = dict(os.environ)
    if hashseed is None:
        env.pop('PYTHONHASHSEED', None)
    else:
        env['PYTHONHASHSEED'] = str(hashseed)
    here = os.path.dirname(os.path.dirname(os.path.abspath(__file__)))
    env['PYTHONPATH'] = here + os.pathsep + env.get('PYTHONPATH', '')
    spec = {'root': root, 'argv': list(argv), 'events': [[list(p), e] for p, e in events], 'clock_step': clock_step, 'stdin_isatty': stdin_isatty}
    p = subprocess.run([sys.executable, '-m', 'pv.child_run'], input=json.dumps(spec), capture_output=True, text=True, env=env, cwd=here, timeout=timeout)
    if p.returncode != 0 or not p.stdout.strip().startswith('{'):
        raise core.HarnessError(f'child run failed (rc {p.returncode}): {p.stderr[-400:]}')
    d = json.loads(p.stdout)
    if 'child_exception' in d:
        if d.get('in_repo'):
            raise core.Violation('crash:main', f'pcfg_guesser.main() {list(argv)} raised in a separate process (PYTHONHASHSEED={hashseed}): {d["child_exception"][-700:]}',
                                 {'argv': list(argv), 'events': spec['events']})
        raise core.HarnessError('child run raised outside the repository code: ' + d['child_exception'][-500:])
    res = Result()
    for k, v in d.items():
        setattr(res, k, v)
    res.pops = [(tuple(tuple(x) for x in pt), prob) for pt, prob in (d.get('pops') or [])]
    res.delivered = [[(tuple(x[0]) if isinstance(x[0], list) else x[0])] + list(x[1:]) for x in (d.get('delivered') or [])]
    return res


def session_name_path(root, name):
    return os.path.join(root, name + '.sav')


def make_root(prefix='sess'):
    d = core.scratch_dir(prefix)
    os.makedirs(os.path.join(d, 'Rules'), exist_ok=True)
    return d


def copy_cli(root):
    """Copies the repository's scripts and libraries (not Rules/) into root for subprocess runs."""
    for name in os.listdir(core.REPO):
        src = os.path.join(core.REPO, name)
        if name.endswith('.py') and os.path.isfile(src):
            shutil.copy2(src, os.path.join(root, name))
        elif name.startswith('lib_') and os.path.isdir(src):
            dst = os.path.join(root, name)
            if os.path.isdir(dst):
                shutil.rmtree(dst)
            shutil.copytree(src, dst, ignore=shutil.ignore_patterns('__pycache__', 'unit_tests'))
    os.makedirs(os.path.join(root, 'Rules'), exist_ok=True)
    return root
