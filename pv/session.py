"""Runs the real pcfg_guesser.main() / CrackingSession in-process with a harness-owned keyboard.

The real `keypress` function runs in a real thread; only the three names it uses from the module globals of
lib_guesser.cracking_session are replaced for the duration of one run:
  input  -> blocks on a harness queue (the harness decides when a line, EOF or an error arrives),
  time   -> sleep() is a no-op,
  threading -> Thread subclass that remembers the instance (so the harness can wait for it to settle).
Events are delivered at named loop positions; after delivering one the harness waits until the thread is
blocked in input() again or has terminated, so every schedule is reproducible.

Positions: ('before_pop', i) / ('after_pop', i): around the i-th call of PcfgQueue.next (1-based);
           ('guess', j): right after the j-th guess of this run was written (1-based).
Events: '' (status), 'h', 'q', or {'raise': 'EOFError'|'RuntimeError'|'OSError'}.
"""
import configparser
import contextlib
import importlib
import io
import os
import queue
import shutil
import sys
import threading
import types

from . import core

core.use_repo()


class _Sched:
    def __init__(self, events):
        self.events = {tuple(k): v for k, v in events}
        self.q = queue.Queue()
        self.blocked = threading.Event()
        self.thread = None
        self.delivered = []
        self.thread_errors = []

    def input(self, *a):
        self.blocked.set()
        ev = self.q.get()
        if isinstance(ev, BaseException):
            raise ev
        return ev

    def deliver(self, ev, pos):
        t = self.thread
        if t is None or not t.is_alive():
            self.delivered.append([list(pos), ev, 'thread_not_alive'])
            return
        # wait until the thread is actually waiting for input
        while t.is_alive() and not self.blocked.wait(0.001):
            pass
        if not t.is_alive():
            self.delivered.append([list(pos), ev, 'thread_not_alive'])
            return
        self.blocked.clear()
        if isinstance(ev, dict):
            exc = {'EOFError': EOFError(), 'RuntimeError': RuntimeError('input(): lost sys.stdin'),
                   'OSError': OSError(9, 'Bad file descriptor'), 'ValueError': ValueError('I/O operation on closed file')}[ev['raise']]
            self.q.put(exc)
        else:
            self.q.put(ev)
        while t.is_alive() and not self.blocked.wait(0.001):
            pass
        self.delivered.append([list(pos), ev, 'ok'])

    def at(self, pos):
        ev = self.events.get(pos)
        if ev is not None:
            self.deliver(ev, pos)

    def release(self):
        t = self.thread
        if t is not None and t.is_alive():
            self.q.put(EOFError())
            t.join(2)


class Result:
    def __init__(self):
        self.lines = []          # stdout lines
        self.stdout = ''
        self.stderr = ''
        self.pops = []           # (pt tuple, prob) per successful pop
        self.guess_pop = []      # pop index (1-based, 0 = before the first pop) during which each guess was written
        self.sav = None          # {section: {k: v}} of the save file after the run
        self.error = None
        self.delivered = []
        self.thread_alive_at_end = None
        self.omen_guess_pop = []


def read_sav(path):
    if not os.path.exists(path):
        return None
    c = configparser.ConfigParser()
    try:
        c.read(path)
    except configparser.Error:
        return {'__unparsable__': open(path, errors='replace').read()}
    return {s: dict(c[s]) for s in c.sections()}


def run_main(root, argv, events=(), fail_stderr_after=None):
    """Runs the real pcfg_guesser.main() with __file__ pointing into `root` (so Rules/ and *.sav live there).

    root: scratch directory containing Rules/<name>/...; argv: command line without the program name.
    """
    import lib_guesser.cracking_session as cs
    import lib_guesser.priority_queue as pq
    import lib_guesser.pcfg_grammar as pgm
    pg = importlib.import_module('pcfg_guesser')
    res = Result()
    sched = _Sched(events)
    real_thread = threading.Thread

    class T(real_thread):
        def __init__(s, *a, **k):
            super().__init__(*a, **k)
            sched.thread = s

    saved = {'threading': cs.threading, 'time': cs.time, 'input': cs.__dict__.get('input', None),
             'next': pq.PcfgQueue.next, 'print_guess': pgm.PcfgGrammar.print_guess, 'file': pg.__file__,
             'argv': sys.argv, 'hook': threading.excepthook}
    state = {'pops': 0, 'guesses': 0}
    orig_next = pq.PcfgQueue.next
    orig_print = pgm.PcfgGrammar.print_guess

    def next_(self):
        state['pops'] += 1
        i = state['pops']
        sched.at(('before_pop', i))
        r = orig_next(self)
        if r is not None:
            res.pops.append((tuple((a, b) for a, b in r['pt']), r['prob']))
        sched.at(('after_pop', i))
        return r

    def print_(self, guess):
        orig_print(self, guess)
        state['guesses'] += 1
        res.guess_pop.append(len(res.pops))
        sched.at(('guess', state['guesses']))

    def hook(args):
        sched.thread_errors.append(repr(args.exc_value))

    out, err = io.StringIO(), io.StringIO()
    try:
        cs.threading = types.SimpleNamespace(Thread=T, main_thread=threading.main_thread)
        cs.time = types.SimpleNamespace(sleep=lambda s: None)
        cs.input = sched.input
        pq.PcfgQueue.next = next_
        pgm.PcfgGrammar.print_guess = print_
        pg.__file__ = os.path.join(root, 'pcfg_guesser.py')
        sys.argv = ['pcfg_guesser.py'] + list(argv)
        threading.excepthook = hook
        with contextlib.redirect_stdout(out), contextlib.redirect_stderr(err):
            try:
                pg.main()
            except SystemExit as e:
                res.error = 'SystemExit(%r)' % (e.code,)
    finally:
        res.thread_alive_at_end = bool(sched.thread and sched.thread.is_alive())
        sched.release()
        cs.threading = saved['threading']
        cs.time = saved['time']
        if saved['input'] is None:
            cs.__dict__.pop('input', None)
        else:
            cs.input = saved['input']
        pq.PcfgQueue.next = saved['next']
        pgm.PcfgGrammar.print_guess = saved['print_guess']
        pg.__file__ = saved['file']
        sys.argv = saved['argv']
        threading.excepthook = saved['hook']
    res.stdout = out.getvalue()
    res.stderr = err.getvalue()
    res.lines = res.stdout.split('\n')
    if res.lines and res.lines[-1] == '':
        res.lines.pop()
    res.delivered = sched.delivered
    name = 'default_run'
    av = list(argv)
    for i, x in enumerate(av):
        if x in ('-s', '--session') and i + 1 < len(av):
            name = av[i + 1]
    res.sav = read_sav(os.path.join(root, name + '.sav'))
    res.thread_errors = sched.thread_errors
    return res


def session_name_path(root, name):
    return os.path.join(root, name + '.sav')


def make_root(prefix='sess'):
    d = core.scratch_dir(prefix)
    os.makedirs(os.path.join(d, 'Rules'), exist_ok=True)
    return d


def copy_cli(root):
    """Copies the repository's scripts and libraries (not Rules/) into root for subprocess runs."""
    for name in os.listdir(core.REPO):
        src = os.path.join(core.REPO, name)
        if name.endswith('.py') and os.path.isfile(src):
            shutil.copy2(src, os.path.join(root, name))
        elif name.startswith('lib_') and os.path.isdir(src):
            dst = os.path.join(root, name)
            if os.path.isdir(dst):
                shutil.rmtree(dst)
            shutil.copytree(src, dst, ignore=shutil.ignore_patterns('__pycache__', 'unit_tests'))
    os.makedirs(os.path.join(root, 'Rules'), exist_ok=True)
    return root
