"""Hypothesis strategies shared by the checks: probability values, synthetic rulesets, OMEN models."""
import math
from fractions import Fraction

from hypothesis import strategies as st

from . import rsmodel

# ------------------------------------------------------------------ G-prob
DYADIC = sorted({k / 2 ** m for m in range(1, 7) for k in range(1, 2 ** m)} | {1.0})
TENTHS = [i / 10 for i in range(1, 10)] + [i / 100 for i in (1, 5, 15, 25, 35, 45, 55, 65, 75, 85, 95, 99)]
TINY = [1e-300, 1e-200, 1e-160, 1e-155, 5e-324, 1e-310, 2.5e-162, 1e-162, 1e-323, 3e-320, 1e-154, 2e-308]
SMALLQ = sorted({a / b for b in range(2, 31) for a in range(1, b)})


def probs(family=None):
    fams = {
        'dyadic': st.sampled_from(DYADIC),
        'tenths': st.sampled_from(TENTHS),
        'tiny': st.sampled_from(TINY),
        'count': st.sampled_from(SMALLQ),
        'float': st.floats(min_value=1e-12, max_value=1.0, allow_nan=False, exclude_min=False),
    }
    if family:
        return fams[family]
    return st.one_of(*fams.values())


FAMILIES = ['dyadic', 'dyadic', 'tenths', 'count', 'count', 'tiny', 'mixed', 'float']


@st.composite
def prob_list(draw, family, k):
    """k pairwise distinct probabilities, sorted descending."""
    strat = probs(None if family == 'mixed' else family)
    if family == 'dyadic' and k <= 4 and draw(st.integers(0, 2)) == 0:
        strat = st.sampled_from([0.5, 0.25, 0.125, 0.0625])     # tiny pool: forces many exact ties of products
    xs = sorted(draw(st.lists(strat, min_size=k, max_size=k, unique=True)), reverse=True)
    if k >= 2 and draw(st.integers(0, 7)) == 0:
        # neighbouring entries that are NOT tied but differ by one part in 1e12: two groups, two probabilities
        i = draw(st.integers(0, k - 2))
        near = xs[i] * (1 - 2.0 ** -40)
        if xs[i + 1] < near < xs[i]:
            xs[i + 1] = near
    return xs


# ------------------------------------------------------------------ values
LOWER = 'abcxyz' + 'éñ' + 'яжд' + 'ωλ' + 'ß\ufb01'      # incl. letters whose upper-case form is longer (ß -> SS, ﬁ -> FI)
DIGITS = '0123456789'
OTHER = '!@#$.-_ *' + '€' + '\U0001F600' + '§' + '%' + '\u00ad' + '\x7f'       # incl. % (interpolation syntax), soft hyphen and DEL (not printable)
KEYB = 'qwe123asd!@#zxcQAZ'                         # incl. walks typed with the shift key held
YEARS = ['19%02d' % i for i in range(60, 100, 3)] + ['20%02d' % i for i in range(0, 25, 2)]
CONTEXT = [';p', ':p', '*0*', '#1', 'No.1', 'no.1', 'No.', 'i<3', 'I<3', '<3', 'Mr.', 'mr.', 'MR.', 'MS.', 'Ms.',
           'ms.', 'Mz.', 'mz.', 'MZ.', 'St.', 'st.', 'Dr.', 'dr.']

ALPHABET = {'A': LOWER, 'D': DIGITS, 'O': OTHER, 'K': KEYB}


def _word(alphabet, ln):
    # integer-indexed (st.text with per-variable alphabets trips a Hypothesis shrinker bug in 6.168:
    # "ValueError: 64 is not in list" when nodes of different alphabets are swapped)
    k = len(alphabet)
    return st.lists(st.integers(0, k - 1), min_size=ln, max_size=ln).map(lambda xs: ''.join(alphabet[i] for i in xs))


def values_for(name, n):
    """n unique values of variable `name` (length encoded in the name)."""
    cat, ln = name[0], int(name[1:])
    if cat == 'C':
        return st.lists(_word('UL', ln), min_size=n, max_size=n, unique=True)
    if cat == 'Y':
        return st.lists(st.sampled_from(YEARS), min_size=n, max_size=n, unique=True)
    if cat == 'X':
        return st.lists(st.sampled_from(CONTEXT), min_size=n, max_size=n, unique=True)
    return st.lists(_word(ALPHABET[cat], ln), min_size=n, max_size=n, unique=True)


def capacity(name):
    cat, ln = name[0], int(name[1:])
    if cat == 'C':
        return 2 ** ln
    if cat == 'Y':
        return len(YEARS)
    if cat == 'X':
        return len(CONTEXT)
    return len(set(ALPHABET[cat])) ** ln


VAR_NAMES = ['A1', 'A2', 'A3', 'A4', 'D1', 'D2', 'D3', 'O1', 'O2', 'K4', 'Y1', 'X1', 'A12', 'D10']


@st.composite
def variable(draw, name, family, max_groups=5, max_values=3):
    cap = capacity(name)
    if cap < 2 or draw(st.integers(0, 5)) == 0:
        ng = 1                                       # single-entry variables are an emphasis class
    else:
        ng = draw(st.integers(2, min(max_groups, cap)))
    sizes = []
    left = cap
    for i in range(ng):
        hi = max(1, min(max_values, left - (ng - i - 1)))
        s = draw(st.integers(1, hi))
        sizes.append(s)
        left -= s
    vals = draw(values_for(name, sum(sizes)))
    ps = draw(prob_list(family, ng))
    groups = []
    k = 0
    for p, s in zip(ps, sizes):
        groups.append([p, vals[k:k + s]])
        k += s
    return groups


@st.composite
def omen_models(draw, max_ngram=3, alpha_max=3):
    """Small OMEN model in the loader's format (every IP / CP n-gram listed once)."""
    ngram = draw(st.integers(2, max_ngram))
    alpha = draw(st.lists(st.sampled_from(list('abcdé1я%AB')), min_size=2, max_size=alpha_max, unique=True))
    ctx_len = ngram - 1
    import itertools
    ctxs = [''.join(t) for t in itertools.product(alpha, repeat=ctx_len)]
    lv = st.sampled_from([0, 0, 1, 1, 2, 3, 5, 10])
    ip = []
    for c in ctxs:
        if draw(st.integers(0, 3)) > 0:
            ip.append([draw(lv), c])
    if not ip or all(l >= 10 for l, _ in ip):
        ip = [[0, ctxs[0]]] + [x for x in ip if x[1] != ctxs[0]]
    cp = []
    for c in ctxs:
        mode = draw(st.integers(0, 4))     # 0: dead end, else sparse/dense
        if mode == 0:
            continue
        for a in alpha:
            if mode >= 3 or draw(st.booleans()):
                cp.append([draw(lv), c + a])
    ln = [10] * 21
    ncheap = draw(st.integers(1, 3))
    for _ in range(ncheap):
        pos = draw(st.integers(ngram, ngram + 3))      # 1-based length
        ln[pos - 1] = draw(st.sampled_from([0, 0, 1, 2, 4]))
    return {'ngram': ngram, 'alphabet': alpha, 'ip': ip, 'ep': ip, 'cp': cp, 'ln': ln}


@st.composite
def file_styles(draw):
    return {'eol': draw(st.sampled_from(['lf', 'crlf', 'crlf'])), 'final_newline': draw(st.booleans()),
            'scope': draw(st.sampled_from(['all', 'all', 'omen', 'pcfg']))}


@st.composite
def rulesets(draw, max_pt=600, markov='maybe', prince=False, max_structs=4, normalised=False,
             tied_levels=False, families=None, rich_levels=False):
    """A synthetic well-formed ruleset model (see rsmodel)."""
    family = draw(st.sampled_from(families or FAMILIES))
    nv = draw(st.integers(1, 5))
    names = draw(st.lists(st.sampled_from(VAR_NAMES), min_size=nv, max_size=nv, unique=True))
    vars_ = {}
    for nm in names:
        vars_[nm] = draw(variable(nm, family))
        if nm[0] == 'A':
            vars_['C' + nm[1:]] = draw(variable('C' + nm[1:], family))
    if len(vars_) >= 2 and draw(st.integers(0, 3)) == 0:
        # equal ratios between neighbouring groups of two different variables (word list and mask list, digits and symbols):
        # the two parents of a pre-terminal then tie exactly in exact arithmetic and almost in floats
        a, b = draw(st.lists(st.sampled_from(sorted(vars_)), min_size=2, max_size=2, unique=True))
        if a[0] == 'A' and draw(st.booleans()):
            b = 'C' + a[1:]
        src, dst = vars_[a], vars_[b]
        for i in range(min(len(src), len(dst))):
            dst[i][0] = src[i][0]
        if len(dst) > len(src):
            del dst[len(src):]
    ns = draw(st.integers(1, max_structs))
    structs = []
    for _ in range(ns):
        nt = draw(st.integers(1, 4))
        if draw(st.integers(0, 2)) == 0 and nt > 1:
            t = draw(st.sampled_from(names))           # the same type repeated inside one structure
            toks = [t] * nt
        else:
            toks = [draw(st.sampled_from(names)) for _ in range(nt)]
        structs.append(''.join(toks))
    if len(structs) > 1 and draw(st.integers(0, 5)) == 0:
        structs[-1] = structs[0]                       # duplicate base structure (low weight)
    m = {'encoding': 'utf-8', 'uuid': 'uuid-' + str(draw(st.integers(0, 9))), 'vars': vars_}
    use_m = {'no': False, 'yes': True, 'maybe': draw(st.integers(0, 2)) == 0}[markov]
    if use_m:
        structs.append('M')
    bps = [draw(probs(None if family == 'mixed' else family)) for _ in structs]
    if draw(st.integers(0, 3)) == 0 and len(bps) > 1:
        bps[1] = bps[0]                                # exact tie between base structures
    if use_m:
        # P(M) must leave something for the rest when skip_brute rescales
        if bps[-1] >= 1.0:
            bps[-1] = 0.5
    order = sorted(range(len(structs)), key=lambda i: -bps[i])
    # 'M' can land at any position of the list; move it explicitly among equal probabilities too
    base = [[structs[i], bps[i]] for i in order]
    m['base'] = base
    # cap the number of pre-terminals by construction
    vs, eb = rsmodel.effective(dict(m, m_levels=[[1, 0.5]]))
    while rsmodel.n_preterminals(vs, eb) > max_pt:
        big = max(range(len(base)), key=lambda i: (rsmodel.n_preterminals(vs, [eb[i]]), -i))
        toks = rsmodel.tokens(base[big][0])
        if len(toks) > 1:
            base[big][0] = ''.join(toks[:-1])
        else:
            cand = [t for t in rsmodel.with_caps(toks) if t in vars_ and len(vars_[t]) > 1]
            if cand:
                nm = max(cand, key=lambda t: len(vars_[t]))
                vars_[nm] = vars_[nm][:max(1, len(vars_[nm]) // 2)]
            elif len(base) > 1:
                del base[big]
            else:
                break
        vs, eb = rsmodel.effective(dict(m, m_levels=[[1, 0.5]]))
    if use_m:
        om = draw(omen_models())
        m['omen'] = om
        nl = draw(st.integers(1, 3))
        if rich_levels:
            # construct (not filter): only levels that really contain 2..40 strings under the reference enumerator
            from . import omen_ref
            ref = omen_ref.from_model_dict(om)
            # levels 10..13 bring in initial n-grams and lengths whose own level is the maximum (10)
            good = [l for l in range(0, 14) if 2 <= omen_ref.count_level(ref, l) <= 40 and
                    (l < 9 or omen_ref.search_space(ref, l, cap=20000) <= 20000)]
            if not good:
                om = {'ngram': 2, 'alphabet': ['a', 'b'], 'ip': [[0, 'a'], [1, 'b']], 'ep': [[0, 'a'], [1, 'b']],
                      'cp': [[0, 'aa'], [1, 'ab'], [0, 'ba'], [1, 'bb']], 'ln': [10, 0, 1] + [10] * 18}
                m['omen'] = om
                good = [1, 2]
            nl = min(nl, len(good))
            lvls = draw(st.lists(st.sampled_from(good), min_size=nl, max_size=nl, unique=True))
        else:
            lvls = draw(st.lists(st.integers(0, 6), min_size=nl, max_size=nl, unique=True))
        if tied_levels:
            p = draw(probs('dyadic'))
            ps = [p] * nl
        else:
            ps = draw(prob_list(family if family != 'float' else 'count', nl))
        m['m_levels'] = [[l, p] for l, p in zip(lvls, ps)]
        m['keyspace'] = [[l, 1] for l in sorted(lvls)]
    else:
        m['m_levels'] = []
    if draw(st.integers(0, 3)) == 0:
        # the files as a hand edit or a line-end converting tool leaves them (the shipped Default ruleset has CRLF files too)
        m['file_style'] = draw(file_styles())
    if prince:
        pn = draw(st.lists(st.sampled_from(names), min_size=1, max_size=len(names), unique=True))
        pps = sorted([draw(probs(None if family == 'mixed' else family)) for _ in pn], reverse=True)
        m['prince'] = [[n, p] for n, p in zip(pn, pps)]
    return m


def describe(m):
    """Class labels of a ruleset model, for the evidence histogram."""
    out = []
    fs = m.get('file_style')
    if fs:
        out.append('files_' + fs.get('eol', 'lf') + ('' if fs.get('final_newline', True) else '_no_final_newline'))
    toks = [rsmodel.tokens(s) for s, _ in m['base']]
    if any(len(t) != len(set(t)) for t in toks):
        out.append('repeated_type')
    if any(len(g) == 1 for g in m['vars'].values()):
        out.append('single_entry_var')
    ss = [s for s, _ in m['base']]
    if len(ss) != len(set(ss)):
        out.append('duplicate_structure')
    if any(s == 'M' for s in ss):
        out.append('markov')
        if ss[0] == 'M':
            out.append('markov_first')
        elif ss[-1] != 'M':
            out.append('markov_middle')
    ps = [p for _, p in m['base']]
    if len(ps) != len(set(ps)):
        out.append('tied_base')
    if any(p < 1e-150 for g in m['vars'].values() for p, _ in g):
        out.append('tiny_prob')
    return out
