"""C17 - PRINCE-LING emits the words of the PRINCE grammar most-probable-first, each (type, value, capitalisation)
once, the same list to a file as to stdout, and with --size N exactly the first N of the unbounded list."""
import importlib
import contextlib
import io
import os
import subprocess
import sys
from collections import Counter

from hypothesis import strategies as st

from .. import core, rsmodel, session, strategies as S
from ..core import Part, Violation, guard

core.use_repo()

RULE = ("Hypothesis-generated synthetic rulesets with a PRINCE base list (types A/D/O/K/Y/X and E/W), both all_lower settings; the output file of --output may already exist (longer or shorter) and is then overwritten by a --size run; the "
        "real prince_ling.main() is run in-process unbounded (U), to a file, and with --size N for EVERY N in 1..|U|+1. "
        "Oracle: Counter(U) == model language of (type, value, capitalisation), each derivation once; the model probabilities "
        "along U are non-increasing; file bytes == stdout bytes; size-N output == U[:N]. A CLI part runs prince_ling.py as a "
        "subprocess under drawn invocation contexts (hash seed different from the reference run's when the PRINCE types and their top groups are tied, one case in three). Non-trivial = N strictly inside a group of >=2 equally probable words; distinct = hash of (model, flag, N). Scale part large_list: a PRINCE list of 160 009 / 400 009 words (more than 1 MiB) to stdout, to a file and with --size far into the list.")
ASSUMPTIONS = ["N >= 1", "UTF-8 ruleset encoding for the file == stdout comparison"]

_ROOT = None


def _root():
    global _ROOT
    if _ROOT is None or not os.path.isdir(_ROOT):
        _ROOT = session.make_root('c17')
    return _ROOT


class _TooMany(BaseException):
    pass


def run_prince(root, argv):
    """Real prince_ling.main() in-process; returns (stdout lines, stderr)."""
    pl = importlib.import_module('prince_ling')
    saved = (pl.__file__, sys.argv)
    out, err = io.StringIO(), io.StringIO()
    try:
        pl.__file__ = os.path.join(root, 'prince_ling.py')
        sys.argv = ['prince_ling.py'] + list(argv)
        with contextlib.redirect_stdout(out), contextlib.redirect_stderr(err):
            try:
                pl.main()
            except SystemExit:
                pass
    finally:
        pl.__file__, sys.argv = saved
    lines = out.getvalue().split('\n')
    if lines and lines[-1] == '':
        lines.pop()
    return lines, err.getvalue()


def model_words(m, skip_case):
    """[(prob_exact, word)] for every derivation of the PRINCE grammar."""
    vs, base = rsmodel.effective(m, False, skip_case, 'Prince')
    out = []
    for bi, pt in rsmodel.preterminals(vs, base):
        p = rsmodel.exact_prob(vs, base[bi][1], pt)
        for w in rsmodel.expand(vs, pt):
            out.append((p, w, pt))
    return vs, base, out


def prop(case, rec):
    m, sc = case['model'], case['skip_case']
    root = _root()
    rsmodel.write_ruleset(os.path.join(root, 'Rules', 'T'), m)
    flags = ['--all_lower'] if sc else []
    U, err = guard(case, run_prince, root, ['-r', 'T'] + flags)
    vs, base, words = model_words(m, sc)
    want = Counter(w for _, w, _ in words)
    if Counter(U) != want:
        raise Violation('wordlist_set', f'unbounded list differs from the model language: missing {list((want - Counter(U)).items())[:5]} '
                        f'extra {list((Counter(U) - want).items())[:5]}', case)
    # non-increasing model probability along U (a word may have several derivations: use the best assignment greedily)
    byword = {}
    for p, w, pt in words:
        byword.setdefault(w, []).append(p)
    for w in byword:
        byword[w].sort(reverse=True)
    used = Counter()
    seq = []
    for w in U:
        seq.append(byword[w][used[w]])
        used[w] += 1
    for i in range(len(seq) - 1):
        if seq[i] < seq[i + 1] and float(seq[i + 1] - seq[i]) > 1e-12 * float(seq[i + 1]):
            raise Violation('wordlist_order', f'word #{i + 1} {U[i + 1]!r} (p={float(seq[i + 1])!r}) is more probable than the one before it {U[i]!r} (p={float(seq[i])!r})', case)
    # file output == stdout output
    fn = os.path.join(root, 'out.txt')
    if os.path.exists(fn):
        os.remove(fn)
    stale = case.get('stale_output', 'longer')
    if stale:
        # the output file already exists (an earlier, longer or shorter wordlist written to the same path)
        with open(fn, 'wb') as f:
            f.write((''.join(w + '\n' for w in U) * 2 + 'leftover').encode('utf-8') if stale == 'longer' else b'x\n')
        rec.cls('output_file_existed_' + stale)
    lines2, _ = guard(case, run_prince, root, ['-r', 'T', '-o', fn] + flags)
    data = open(fn, 'rb').read() if os.path.exists(fn) else None
    if lines2:
        raise Violation('file_mode_stdout', f'with --output the words were (also) written to stdout: {lines2[:3]}', case)
    if data != ''.join(w + '\n' for w in U).encode('utf-8'):
        raise Violation('file_differs', f'file output differs from stdout output ({None if data is None else len(data)} bytes vs {len(U)} lines)', case)
    if len(U) >= 2:
        # ... and a shorter list (--size) written over the full one just written
        k = max(1, len(U) // 2)
        lines3, _ = guard(case, run_prince, root, ['-r', 'T', '-o', fn, '-s', str(k)] + flags)
        data = open(fn, 'rb').read() if os.path.exists(fn) else None
        if lines3 or data != ''.join(w + '\n' for w in U[:k]).encode('utf-8'):
            raise Violation('file_differs', f'--size {k} --output over the file that held the full list: the file has '
                            f'{None if data is None else data.count(10)} lines ({None if data is None else len(data)} bytes), expected the first {k} '
                            f'words of the unbounded list; stdout {lines3[:3]}', case)
    # groups of equal probability (for the non-triviality rule)
    inside = set()
    i = 0
    while i < len(seq):
        j = i
        while j < len(seq) and seq[j] == seq[i]:
            j += 1
        if j - i >= 2:
            inside.update(range(i + 1, j))
        i = j
    ns = case.get('ns') or list(range(1, len(U) + 2))
    for n in ns:
        sub = dict(case, ns=[n])
        got, _ = guard(sub, run_prince, root, ['-r', 'T', '-s', str(n)] + flags)
        cls = ['size_inside_tied_group' if n in inside else 'size_on_boundary', 'all_lower' if sc else 'case_mangling'] + (['types_tied'] if m.get('prince_types_tied') else [])
        if any(t in ('E', 'W') for t, _, _ in [(b[0][0], 0, 0) for b in base]):
            cls.append('email_or_website_type')
        rec.case({'N': n, 'total': len(U), 'all_lower': sc}, n in inside, cls, key=[m, sc, n])
        if got != U[:n]:
            raise Violation('size', f'--size {n}: {len(got)} words written, expected the first {min(n, len(U))} of the unbounded list; tail {got[-3:]} vs {U[:n][-3:]}', sub)
    if not U:
        rec.skip('empty_prince_language')


@st.composite
def cases(draw, max_pt=40):
    m = draw(S.rulesets(max_pt=max_pt, markov='no', prince=True, max_structs=2, families=['count', 'dyadic', 'tenths', 'float']))
    # PRINCE base list: single tokens; add e-mail / website types
    if draw(st.booleans()):
        m['emails'] = [['gmail.com', 0.5], ['yahoo.com', 0.25], ['aol.com', 0.25]][:draw(st.integers(1, 3))]
        m['websites'] = [['google.com', 0.75], ['www.x.org', 0.25]][:draw(st.integers(1, 2))]
        extra = [[t, draw(S.probs('count'))] for t in draw(st.sampled_from([['E'], ['W'], ['E', 'W']]))]
        m['prince'] = sorted(m['prince'] + extra, key=lambda x: -x[1])
    if draw(st.integers(0, 2)) == 0:
        # equally probable types whose most probable groups are equally probable too (every small training set gives these): their
        # terminals tie across types, and the order among them has to be the same in every process, for the file, for stdout
        # and for --size N
        have = [t for t, _ in m['prince']]
        more = [t for t in sorted(m['vars']) if t[0] != 'C' and t not in have]
        if len(have) < 2 and more:
            m['prince'].append([more[0], m['prince'][0][1]])
        if len(m['prince']) >= 2:
            p0 = m['prince'][0][1]
            m['prince'] = [[t, p0] for t, _ in m['prince']]
            top = max(m['vars'][t][0][0] for t, _ in m['prince'] if t in m['vars'])
            for t, _ in m['prince']:
                if t in m['vars']:
                    m['vars'][t][0][0] = top
            m['prince_types_tied'] = True
    # cap language size
    vs, base, words = model_words(m, False)
    while len(words) > 60 and len(m['prince']) > 1:
        m['prince'].pop()
        vs, base, words = model_words(m, False)
    return {'model': m, 'skip_case': draw(st.booleans()), 'stale_output': draw(st.sampled_from([None, 'longer', 'longer', 'shorter']))}


def run_main(rec, seed, shard, nshards, tier):
    n = {'quick': 25, 'thorough': 600}[tier]
    core.hyp_run(rec, prop, cases(), n, seed)


F17_CASE = {'model': {'encoding': 'utf-8', 'uuid': 'f17', 'vars': {'D1': [[0.25, ['1', '2', '3', '4']]]}, 'base': [['D1', 1.0]],
                      'prince': [['D1', 1.0]], 'm_levels': []}, 'skip_case': False}


def run_regress(rec, seed, shard, nshards, tier):
    prop(F17_CASE, rec)


_CLI = None


def prop_cli(case, rec):
    global _CLI
    from .. import cli
    if _CLI is None or not os.path.isdir(_CLI):
        _CLI = session.copy_cli(session.make_root('c17cli'))
    m, sc, n = case['model'], case['skip_case'], case['n']
    ctx = case.get('context') or cli.DEFAULT
    rule = ctx.get('rule', 'T')
    rsmodel.write_ruleset(os.path.join(_root(), 'Rules', 'T'), m)
    rsmodel.write_ruleset(os.path.join(_CLI, 'Rules', rule), m)
    flags = ['--all_lower'] if sc else []
    U, _ = guard(case, run_prince, _root(), ['-r', 'T'] + flags)
    want = ''.join(w + '\n' for w in (U[:n] if n else U)).encode('utf-8')
    lo = case.get('long_options')
    args = [('--rule' if lo else '-r'), rule] + flags + ([('--size' if lo else '-s'), str(n)] if n else [])
    # the list goes to stdout, to an absolute path, or to a RELATIVE path (which belongs to the directory the user is in)
    out_mode = case.get('output', 'stdout')
    cwd = cli.cwd_for(_CLI, ctx)
    target = None
    if out_mode != 'stdout':
        name = 'words out.txt'
        target = os.path.join(cwd, name)
        for d in {cwd, _CLI}:
            if os.path.exists(os.path.join(d, name)):
                os.remove(os.path.join(d, name))
        args += [('--output' if lo else '-o'), target if out_mode == 'absolute' else name]
    try:
        p = cli.run(_CLI, 'prince_ling.py', args, ctx)
    except subprocess.TimeoutExpired:
        rec.skip('cli_timeout_inconclusive')
        return
    rec.case({'args': args, 'words': len(U), 'context': ctx}, len(U) >= 2, ['cli', 'cli_output_' + out_mode] + cli.label(ctx) + (['types_tied'] if m.get('prince_types_tied') else []), key=[m, sc, n, 'cli', ctx, out_mode, lo])
    if target is None:
        got = p.stdout
    else:
        got = open(target, 'rb').read() if os.path.exists(target) else None
        if p.stdout:
            raise Violation('cli_stdout', f'prince_ling.py {args}: words on stdout although an output file was requested: {p.stdout[:60]!r}', case)
    if got != want:
        raise Violation('cli_stdout', f'prince_ling.py {args} (started in {ctx.get("cwd")}): {"stdout" if target is None else "file " + repr(target)} holds '
                        f'{None if got is None else got[:80]!r}.. , expected {len(want)} bytes; rc={p.returncode} '
                        f'stderr tail {p.stderr.decode("utf-8", "replace")[-200:]}', case)


@st.composite
def cli_cases(draw):
    c = draw(cases())
    c['n'] = draw(st.sampled_from([None, 1, 2, 3, 5]))
    from .. import cli
    c['context'] = draw(cli.contexts())
    if c['model'].get('prince_types_tied') and c['context'].get('hashseed') == 0:
        c['context']['hashseed'] = 4242        # the reference list is made in this process (PYTHONHASHSEED=0): the other process gets another seed
    c['output'] = draw(st.sampled_from(['stdout', 'relative', 'relative', 'absolute']))
    c['long_options'] = draw(st.booleans())
    return c


def run_cli(rec, seed, shard, nshards, tier):
    n = {'quick': 12, 'thorough': 40}[tier]
    core.hyp_run(rec, prop_cli, cli_cases(), n, seed, shrink=False)


# ---------------------------------------------------------------- scale: a list of more than a MiB
def prop_large(case, rec):
    """A PRINCE grammar whose D6 list holds `n` values in groups of 3000 equally probable ones (plus a few words with case masks):
    stdout and the file must be the same list of the model's words, and --size N (N inside a group far into the list) its prefix."""
    n = case['n']
    groups, k, i = [], 0, 0
    while k < n:
        size = min(3000, n - k)
        groups.append([(0.9 ** i) * 0.1 / 3000, ['%06d' % (k + j) for j in range(size)]])
        k += size
        i += 1
    m = {'encoding': 'utf-8', 'uuid': 'c17-large', 'vars': {'D6': groups, 'A3': [[0.5, ['abc']], [0.25, ['xyz', 'klm']]], 'C3': [[0.5, ['LLL']], [0.25, ['ULL', 'UUU']]]},
         'base': [['D6', 0.5], ['A3', 0.5]], 'prince': [['D6', 0.75], ['A3', 0.25]], 'm_levels': []}
    root = _root()
    rsmodel.write_ruleset(os.path.join(root, 'Rules', 'T'), m)
    U, _ = guard(case, run_prince, root, ['-r', 'T'])
    want = n + 9
    if len(U) != want or len(set(U)) != want:
        raise Violation('wordlist_set', f'unbounded list has {len(U)} words ({len(set(U))} distinct), the PRINCE grammar has {want}', case)
    fn = os.path.join(root, 'big out.txt')
    for size in (None, n - 1234):
        if os.path.exists(fn):
            os.remove(fn)
        lines2, _ = guard(case, run_prince, root, ['-r', 'T', '-o', fn] + (['-s', str(size)] if size else []))
        data = open(fn, 'rb').read() if os.path.exists(fn) else None
        expect = ''.join(w + '\n' for w in (U[:size] if size else U)).encode('utf-8')
        rec.case({'words': len(U), 'bytes': len(expect), 'size': size}, True, ['list_of_%d_bytes' % len(expect)], key=['large', n, size])
        if lines2:
            raise Violation('file_mode_stdout', f'with --output the words were (also) written to stdout: {lines2[:3]}', case)
        if data != expect:
            got = (data or b'').split(b'\n')
            exp = expect.split(b'\n')
            j = next((x for x in range(min(len(got), len(exp))) if got[x] != exp[x]), min(len(got), len(exp)))
            raise Violation('file_differs', f'--output{" --size %d" % size if size else ""}: the file has {len(got) - 1} lines ({None if data is None else len(data)} bytes), stdout gives '
                            f'{len(exp) - 1} ({len(expect)} bytes); first difference at line {j + 1}: {got[j:j + 1]} vs {exp[j:j + 1]}', case)
        if size:
            got3, _ = guard(case, run_prince, root, ['-r', 'T', '-s', str(size)])
            if got3 != U[:size]:
                raise Violation('size', f'--size {size}: {len(got3)} words on stdout, expected the first {size} of the unbounded list', case)


def run_large(rec, seed, shard, nshards, tier):
    prop_large({'n': {'quick': 160000, 'thorough': 400000}[tier]}, rec)


PARTS = [
    Part('large_list', run_large, prop_large, {'quick': 1, 'thorough': 1}),
    Part('regression_f17', run_regress, prop, {'quick': 1, 'thorough': 1}),
    Part('every_size', run_main, prop, {'quick': 8, 'thorough': 16}),
    Part('cli', run_cli, prop_cli, {'quick': 4, 'thorough': 8}),
]
