"""C04 - a pre-terminal expands to exactly the product of its terminal groups (masks applied to the alpha word
immediately before); a Markov pre-terminal expands to exactly the strings of its OMEN level; reported count ==
lines written; all values of a group share the group's probability."""
import os
from collections import Counter

from hypothesis import strategies as st

from .. import core, rsmodel, omen_ref, strategies as S
from ..core import Part, Violation, guard

RULE = ("Hypothesis-generated synthetic rulesets; EVERY pre-terminal of the model (not of the queue) is passed to the real "
        "create_guesses with process stdout captured; lines are compared as a Counter with the model-side expansion, the "
        "returned count with the number of lines, and the loaded groups with the model's groups (value -> probability). "
        "Markov pre-terminals are compared with an independent OMEN enumerator, including rulesets whose levels have tied "
        "probabilities, and also right after an expansion of a Markov pre-terminal on the same grammar object that a limit cut short. Ordinary pre-terminals are also expanded with drawn guess limits inside, at and past their size (count == lines, lines are combinations). Non-trivial = product of group sizes >= 2 and an alpha word not at position 0, or adjacent alpha "
        "words, or a Markov level with >= 2 strings; distinct = hash of (model, pre-terminal). Scale part large_preterminal: pre-terminals built on one group of 9001 / 80 021 / 300 007 equally probable values, through the process stdout.")
ASSUMPTIONS = ["values within one variable are unique (as the trainer guarantees)",
               "a 'U' in a mask means str.upper() of that one character (which may be longer than one character, e.g. ß -> SS)"]

_DIR = None


def _dir():
    global _DIR
    if _DIR is None or not os.path.isdir(_DIR):
        _DIR = core.scratch_dir('c04')
    return _DIR


def check_groups(case, g, vs):
    """Loader grouping: every loaded group carries exactly the model's values with the model's probability."""
    for name, groups in vs.items():
        if name == 'M':
            continue
        loaded = g.grammar.get(name)
        if loaded is None:
            raise Violation('missing_variable', f'variable {name} not loaded', case)
        lv = {}
        for grp in loaded:
            for v in grp['values']:
                if v in lv:
                    raise Violation('group_duplicate_value', f'{name}: value {v!r} loaded twice', case)
                lv[v] = grp['prob']
        mv = {v: p for p, vals in groups for v in vals}
        if lv != mv:
            diff = {k: (lv.get(k), mv.get(k)) for k in set(lv) | set(mv) if lv.get(k) != mv.get(k)}
            raise Violation('group_probability', f'{name}: loaded value->prob differs from the ruleset: {dict(list(diff.items())[:5])}', case)
        if [len(x['values']) for x in loaded] != [len(v) for _, v in groups]:
            raise Violation('grouping', f'{name}: loaded group sizes {[len(x["values"]) for x in loaded]} != {[len(v) for _, v in groups]}', case)


def prop(case, rec):
    from .. import guesser
    m, skip_case = case['model'], case.get('skip_case', False)
    vs, base = rsmodel.effective(m, False, skip_case)
    rdir = os.path.join(_dir(), 'R')
    rsmodel.write_ruleset(rdir, m)
    g = guard(case, guesser.load, rdir, skip_case=skip_case)
    check_groups(case, g, vs)
    budget = 30000
    seen_structs = set()
    om = omen_ref.from_model_dict(m['omen']) if m.get('omen') else None
    for bi, pt in rsmodel.preterminals(vs, base):
        if pt[0][0] == 'M':
            continue
        if (pt in seen_structs):
            continue
        seen_structs.add(pt)
        n = rsmodel.expansion_size(vs, pt)
        if n > budget:
            rec.skip('expansion_budget')
            continue
        budget -= n
        want = rsmodel.expand(vs, pt)
        lines, cnt = guard(case, guesser.capture_guesses, g, list(pt))
        toks = [t for t, _ in pt]
        alpha_pos = [i for i, t in enumerate(toks) if t[0] == 'A']
        adjacent = any(toks[i + 2][0] == 'A' for i in alpha_pos if i + 2 < len(toks))
        nontriv = n >= 2 and (any(i > 0 for i in alpha_pos) or adjacent)
        cls = []
        if adjacent:
            cls.append('adjacent_alpha')
        if alpha_pos and alpha_pos[-1] == len(toks) - 2:
            cls.append('alpha_last')
        if any(0 < i < len(toks) - 2 for i in alpha_pos):
            cls.append('alpha_middle')
        if any(any(ord(ch) > 127 or ch == ' ' for ch in s) for s in want[:3]):
            cls.append('space_or_nonascii')
        rec.case({'pt': [list(x) for x in pt], 'guesses': want[:6]}, nontriv, cls, key=[case, list(pt)])
        if Counter(lines) != Counter(want):
            raise Violation('expansion', f'pre-terminal {pt}: expected {want[:8]}.. got {lines[:8]}.. '
                            f'(missing {list((Counter(want) - Counter(lines)).items())[:4]}, extra {list((Counter(lines) - Counter(want)).items())[:4]})', case)
        if cnt != len(lines):
            raise Violation('count', f'pre-terminal {pt}: reported {cnt} guesses, wrote {len(lines)} lines', case)
        # the same pre-terminal cut short by a guess limit (what --limit does when N falls inside it): the reported count is
        # still the number of lines written, and the lines are still combinations of the groups
        for ls in case.get('limits') or []:
            if n < 2:
                break
            k = 1 + ls % (n - 1) if ls >= 0 else n + (-ls - 1)          # inside the pre-terminal; negative seeds: at or past its end
            ll, lc = guard(case, guesser.capture_guesses, g, list(pt), limit=k)
            rec.cls('limited_expansion')
            if toks[-1][0] != 'C' and len(vs[toks[-1]][pt[-1][1]][1]) >= 2:
                rec.cls('limit_inside_last_group' if k % len(vs[toks[-1]][pt[-1][1]][1]) else 'limit_on_group_boundary')
            if lc != len(ll):
                raise Violation('count_limited', f'pre-terminal {pt} with limit {k}: reported {lc} guesses, wrote {len(ll)} lines {ll[:6]}', case)
            if len(ll) != min(k, n) or Counter(ll) - Counter(want):
                raise Violation('limited_expansion', f'pre-terminal {pt} with limit {k}: wrote {len(ll)} lines, expected {min(k, n)} of its {n} guesses; '
                                f'not among them or too often: {list((Counter(ll) - Counter(want)).items())[:4]}', case)
    # Markov pre-terminals: exactly the strings of the level(s) of the group, as loaded
    if any(s == 'M' for s, _ in m['base']) and om is not None:
        loaded = g.grammar.get('M', [])
        lv_model = {str(l): float(p) for l, p in m['m_levels']}
        lv_loaded = {v: grp['prob'] for grp in loaded for v in grp['values']}
        if lv_loaded != lv_model:
            raise Violation('markov_levels', f'loaded Markov levels {lv_loaded} != ruleset {lv_model}', case)
        for i, grp in enumerate(loaded):
            want = Counter()
            for v in grp['values']:
                ref = omen_ref.enumerate_level(om, int(v), cap=20000)
                if ref is None:
                    want = None
                    break
                want.update(ref)
            if want is None:
                rec.skip('omen_level_too_large')
                continue
            cls = ['markov_pt']
            hist = case.get('markov_history')
            if hist:
                # an earlier expansion on the same grammar object that was cut short by a limit (what --limit does) must not
                # change what this pre-terminal expands to
                j = (i + hist[0]) % len(loaded)
                wj = Counter()
                for v in loaded[j]['values']:
                    wj.update(omen_ref.enumerate_level(om, int(v), cap=20000) or [])
                if sum(wj.values()) >= 2 and sum(wj.values()) < 20000:
                    k = 1 + hist[1] % (sum(wj.values()) - 1)
                    pre, pcnt = guard(case, guesser.capture_guesses, g, [('M', j)], limit=k)
                    if len(pre) != k or pcnt != k or Counter(pre) - wj:
                        raise Violation('markov_limited_expansion', f"Markov pre-terminal #{j} with limit {k}: wrote {len(pre)} lines, reported {pcnt}; "
                                        f"not in the level: {list((Counter(pre) - wj).items())[:5]}", case)
                    cls.append('markov_after_limited_expansion')
            lines, cnt = guard(case, guesser.capture_guesses, g, [('M', i)])
            if len(grp['values']) > 1 or len(set(lv_model.values())) < len(lv_model):
                cls.append('markov_tied_levels')
            rec.case({'pt': [['M', i]], 'levels': grp['values'], 'n': sum(want.values())}, sum(want.values()) >= 2, cls,
                     key=[case, 'M', i])
            if Counter(lines) != want:
                raise Violation('markov_expansion', f"Markov pre-terminal #{i} levels {grp['values']}: expected {sum(want.values())} strings, "
                                f"got {len(lines)}; missing {list((want - Counter(lines)).items())[:5]} extra {list((Counter(lines) - want).items())[:5]}", case)
            if cnt != len(lines):
                raise Violation('count', f'Markov pre-terminal #{i}: reported {cnt}, wrote {len(lines)}', case)


@st.composite
def cases(draw, max_pt):
    mk = draw(st.sampled_from(['no', 'no', 'yes', 'tied']))
    m = draw(S.rulesets(max_pt=max_pt, markov='no' if mk == 'no' else 'yes', tied_levels=(mk == 'tied'),
                        families=['dyadic', 'tenths', 'count', 'float', 'tiny']))
    hist = [draw(st.integers(0, 2)), draw(st.integers(0, 50))] if mk != 'no' and draw(st.booleans()) else None
    return {'model': m, 'skip_case': draw(st.integers(0, 4)) == 0, 'markov_history': hist,
            'limits': draw(st.lists(st.integers(-2, 40), max_size=2))}


def run_main(rec, seed, shard, nshards, tier):
    n = {'quick': 60, 'thorough': 1500}[tier]
    core.hyp_run(rec, prop, cases(150 if tier == 'quick' else 600), n, seed)


# a committed regression input for finding F4 (two OMEN levels with the same probability)
F4_CASE = {'model': {'encoding': 'utf-8', 'uuid': 'f4', 'vars': {'D1': [[0.5, ['1']]]},
                     'base': [['M', 0.5], ['D1', 0.5]],
                     'omen': {'ngram': 2, 'alphabet': ['a', 'b'], 'ip': [[0, 'a'], [1, 'b']], 'ep': [[0, 'a'], [1, 'b']],
                              'cp': [[0, 'aa'], [1, 'ab'], [0, 'ba'], [1, 'bb']], 'ln': [10, 0, 1] + [10] * 18},
                     'm_levels': [[0, 0.25], [1, 0.125], [2, 0.125]], 'keyspace': [[0, 1], [1, 4], [2, 8]]},
           'skip_case': False}


def run_regress(rec, seed, shard, nshards, tier):
    prop(F4_CASE, rec)


# ---------------------------------------------------------------- scale: one pre-terminal of many guesses
def prop_large(case, rec):
    """One group of `n` equally probable values (what the count-1 tail of a real Digits/6.txt or Alpha/6.txt is): the
    pre-terminals built on it expand to exactly the product, through the process stdout, with the reported count."""
    from .. import guesser
    from .c03 import word
    n = case['n']
    digits = ['%06d' % (i * 7 + 3) for i in range(n)]
    m = {'encoding': 'utf-8', 'uuid': 'c04-large',
         'vars': {'D6': [[0.5, ['000001']], [0.5 / n, digits]], 'A6': [[0.5, ['monkey']], [0.5 / (n // 4), [word(i + 5, 6) for i in range(n // 4)]]],
                  'C6': [[0.5, ['LLLLLL']], [0.25, ['ULLLLL', 'UUUUUU']]], 'D2': [[0.75, ['1 ']], [0.25, ['22']]]},
         'base': [['D6', 0.5], ['A6D2', 0.5]], 'm_levels': []}
    rdir = os.path.join(_dir(), 'L')
    rsmodel.write_ruleset(rdir, m)
    g = guard(case, guesser.load, rdir)
    vs, base = rsmodel.effective(m, False, False)
    for pt in ((('D6', 1),), (('A6', 1), ('C6', 1), ('D2', 0))):
        want = rsmodel.expand(vs, pt)
        lines, cnt = guard(case, guesser.capture_guesses, g, list(pt))
        rec.case({'pt': [list(x) for x in pt], 'guesses': len(want), 'characters': sum(len(w) + 1 for w in want)}, True,
                 ['preterminal_of_%d_guesses' % len(want)], key=['large', n, list(pt)])
        if cnt != len(lines):
            raise Violation('count', f'pre-terminal {pt} ({len(want)} guesses): reported {cnt} guesses, wrote {len(lines)} lines', case)
        if Counter(lines) != Counter(want):
            raise Violation('expansion', f'pre-terminal {pt}: {len(lines)} lines written, the product of its groups has {len(want)}; missing '
                            f'{list((Counter(want) - Counter(lines)).items())[:4]}, extra {list((Counter(lines) - Counter(want)).items())[:4]}', case)


def run_large(rec, seed, shard, nshards, tier):
    for n in {'quick': [9001, 80021], 'thorough': [9001, 80021, 300007]}[tier]:
        prop_large({'n': n}, rec)


PARTS = [
    Part('large_preterminal', run_large, prop_large, {'quick': 1, 'thorough': 1}),
    Part('regression_tied_levels', run_regress, prop, {'quick': 1, 'thorough': 1}),
    Part('every_preterminal', run_main, prop, {'quick': 8, 'thorough': 16}),
]
