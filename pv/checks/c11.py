"""C11 - trainer, scorer and guesser agree on every string's OMEN level (or all say it cannot be generated);
the saved per-level password counts describe what the guesser produces."""
import os
from collections import Counter

from hypothesis import strategies as st

from .. import core, pwgen, omen_ref, trainer
from ..core import Part, Violation, guard

core.use_repo()

RULE = ("Hypothesis-generated training lists (short alphabets so that characters fall outside, n-gram 2-5, five encodings) through "
        "the real trainer; candidates = all training passwords, strings the real Markov generator emits, and mutations (an "
        "out-of-alphabet character at each position, truncations/extensions to lengths n-1, n, n+1, 21, 22, the empty string, "
        "generated strings). Oracle (3-way differential): find_omen_level(trainer) == OmenScorer.parse == the fourth field PCFGPasswordScorer.parse reports (whatever category it files the string under; e-mail and web-site strings are added to the lists) == guesser level, where the "
        "guesser level is (a) the independent level formula over the tables loaded by the real load_rules and (b) for levels whose "
        "reference size is <= 20000, membership in the real MarkovCracker's output at exactly that level and at no other "
        "enumerated level, and (c) for those levels the generator's whole output against the independent reference enumeration of the level over the loaded tables; omen_pws_per_level.txt must equal the tally of the trainer's levels over the list. Non-trivial = a "
        "candidate with a defined level >= 1 or a boundary length; distinct = hash of (ruleset options, candidate). Scale part big_counts: lists of 70 000 / 400 000 passwords in which a length, an initial n-gram and a transition occur once.")
ASSUMPTIONS = ["a run in which the trainer does not complete is skipped and counted"]

_DIR = None


def _dir():
    global _DIR
    if _DIR is None or not os.path.isdir(_DIR):
        _DIR = core.scratch_dir('c11')
    return _DIR


def guesser_model(og):
    ip = {s: lvl for lvl, lst in og['ip'].items() for s in lst}
    cp = {}
    for ctx, d in og['cp'].items():
        for lvl, chars in d.items():
            for ch in chars:
                cp.setdefault(ctx, {})[ch] = lvl
    n = og['ngram']
    ln = {}
    for lvl, lst in og['ln'].items():
        for ncp in lst:
            ln[ncp + n - 1] = lvl
    return omen_ref.Model(n, ip, cp, ln, list(og['alphabet']))


def prop(case, rec):
    from .. import guesser
    from lib_trainer.omen.evaluate_password import find_omen_level
    from lib_scorer.omen_scorer import OmenScorer
    from lib_guesser.omen.markov_cracker import MarkovCracker
    from lib_guesser.omen.optimizer import Optimizer
    enc = case['encoding']
    pws = []
    for p, c in case['entries']:
        pws += [p] * c
    path = os.path.join(_dir(), 'train.txt')
    pc = trainer.write_list(path, case['entries'], enc, case.get('spelling', 'plain'))
    rec.cls('list_spelling_' + case.get('spelling', 'plain'))
    out = os.path.join(_dir(), 'R')
    r = guard(case, trainer.train, path, out, encoding=enc, coverage=0.5, ngram=case['ngram'], alphabet_size=case['alphabet_size'], prefixcount=pc)
    if not r.ok:
        if r.error is not None and not isinstance(r.error, ZeroDivisionError):
            raise Violation('crash:' + type(r.error).__name__, f'run_trainer raised {r.error!r}', case)
        rec.skip('trainer_did_not_complete')
        return
    T = r.omen_trainer
    g = guard(case, guesser.load, out)
    with core.quiet():
        sc = guard(case, OmenScorer, out, enc, 9)
        # the scorer as password_scorer.py builds it: the level is the fourth field of what it reports for a string,
        # whatever category (password, other, e-mail, web site) it files the string under
        from lib_scorer.pcfg_password_scorer import PCFGPasswordScorer
        from lib_scorer.grammar_io import load_grammar as s_load_grammar
        full = PCFGPasswordScorer(limit=0)
        if not guard(case, s_load_grammar, full, out):
            raise Violation('scorer_load_failed', 'the scorer could not load a ruleset the trainer just wrote', case)
        full.create_multiword_detector()
        guard(case, full.create_omen_scorer, out, 9)
    gm = guesser_model(g.omen_grammar)
    n = T.ngram
    alpha = list(r.program_info['alphabet'])
    # real generator output for the small levels
    level_sets = {}
    opt = Optimizer(max_length=4)
    for L in range(0, 13):          # up to and beyond the level (10) of initial n-grams never seen at the start of a password
        if omen_ref.count_level(gm, L) > 20000 or omen_ref.search_space(gm, L, cap=200000) > 200000:
            continue
        mc = MarkovCracker(g.omen_grammar, L, opt)
        out_l = []
        while True:
            x = guard(case, mc.next_guess)
            if x is None:
                break
            out_l.append(x)
            if len(out_l) > 60000:
                raise Violation('never_exhausts', f'level {L}', case)
        level_sets[L] = set(out_l)
        # every string that the three level functions put at this level, not only the candidates below: the reference enumeration
        # over the tables the guesser loaded
        ref = omen_ref.enumerate_level(gm, L, cap=20000)
        if ref is not None and set(ref) != level_sets[L]:
            miss, extra = sorted(set(ref) - level_sets[L])[:4], sorted(level_sets[L] - set(ref))[:4]
            ex = (miss or extra)[0]
            raise Violation('generator_level', f'level {L}: the real Markov generator emits {len(level_sets[L])} strings, the level holds {len(set(ref))} by the loaded tables; '
                            f'not emitted {miss}, emitted but of another level {extra} (trainer says {find_omen_level(T, ex)} for {ex!r})', case)
    # ---- candidates
    cands = list(dict.fromkeys(pws))
    gen = [s for L in sorted(level_sets) for s in sorted(level_sets[L])[:15]]
    cands += gen
    outside = next((c for c in 'Zq~§ж' if c not in alpha), None)
    for s in list(cands[:25]):
        if outside:
            for pos in range(0, min(len(s), 6)):
                cands.append(s[:pos] + outside + s[pos + 1:])
        for ln in (n - 1, n, n + 1, 21, 22):
            if ln >= 0:
                cands.append((s * 30)[:ln])
    cands += ['', 'a', alpha[0] * 21 if alpha else 'x', alpha[0] * 22 if alpha else 'x'] + case.get('extra', [])
    cands = list(dict.fromkeys(cands))
    for s in cands:
        lt = guard(case, find_omen_level, T, s)
        ls = guard(case, sc.parse, s)
        lg = omen_ref.level_of(gm, s)
        with core.quiet():
            rep = guard(case, full.parse, s)
        cls = ['scorer_category_' + str(rep[1])] + (['lengths_sharing_one_level'] if case.get('style') == 'chains' else [])
        if rep[3] != ls:
            raise Violation('scorer_report', f'string {s!r}: password scorer reports {rep!r}: OMEN level {rep[3]}, its OMEN tables say {ls} (trainer {lt})', dict(case, extra=[s]))
        if len(s) in (n - 1, n, n + 1, 21, 22, 0):
            cls.append('boundary_length')
        if outside and outside in s:
            cls.append('out_of_alphabet')
        if lt >= 1:
            cls.append('defined_level')
        if lt == -1:
            cls.append('cannot_be_generated')
        rec.case({'string': s, 'trainer': lt, 'scorer': ls, 'guesser': lg, 'ngram': n}, lt >= 1 or 'boundary_length' in cls, cls,
                 key=[case['entries'], case['ngram'], case['alphabet_size'], enc, s])
        if not (lt == ls == lg):
            raise Violation('levels_disagree', f'string {s!r} (n-gram {n}, encoding {enc}): trainer says {lt}, scorer {ls}, guesser tables {lg}', dict(case, extra=[s]))
        for L, members in level_sets.items():
            if (s in members) != (lg == L):
                raise Violation('generator_level', f'string {s!r}: level by all three tables is {lg}, but the real Markov generator '
                                f'{"emits" if s in members else "does not emit"} it at level {L}', dict(case, extra=[s]))
    # ---- saved per-level counts
    want = Counter(guard(case, find_omen_level, T, p) for p in r.passes[2]) if len(r.passes) >= 3 else None
    saved = {}
    with open(os.path.join(out, 'Omen', 'omen_pws_per_level.txt'), encoding=enc) as f:
        for line in f:
            a, b = line.split('\t')
            saved[int(a)] = int(b)
    if want is not None and dict(want) != saved:
        raise Violation('pws_per_level', f'omen_pws_per_level.txt {saved} != levels of the training passwords {dict(want)}', case)


@st.composite
def cases(draw):
    from .c19 import valid_password, encodable
    enc = draw(st.sampled_from(['utf-8', 'utf-8', 'latin-1', 'cp1251', 'ascii']))
    style = draw(st.sampled_from(['short', 'short', 'mixed', 'chains']))
    if style == 'chains':
        # four lengths with the same share of the list (one LN level holds them all), every transition certain (CP level 0),
        # initial n-grams of very different frequency: a string's level is its IP level plus the shared length level
        cyc = draw(st.sampled_from(['abcdefgh', 'abcde', '1a2b3c']))
        ng = draw(st.sampled_from([2, 3]))
        l0 = ng + draw(st.integers(1, 3))
        entries = []
        for ln in range(l0, l0 + 4):
            starts = draw(st.lists(st.integers(0, len(cyc) - 1), min_size=2, max_size=3, unique=True))
            for j, s0 in enumerate(starts):
                p = (cyc * 6)[s0:s0 + ln]
                if p not in [e[0] for e in entries]:
                    entries.append([p, 4 if j == 0 else 1])
        return {'entries': entries, 'encoding': 'utf-8', 'ngram': ng, 'alphabet_size': draw(st.sampled_from([100, 10])),
                'spelling': draw(st.sampled_from(trainer.SPELLINGS)), 'style': 'chains'}
    n = draw(st.integers(3, 25))
    entries, seen = [], set()
    letters = 'abc1' + ('é' if enc in ('utf-8', 'latin-1') else '') + ('я' if enc in ('utf-8', 'cp1251') else '')
    for _ in range(n):
        if style == 'short':
            p = ''.join(draw(st.lists(st.sampled_from(letters), min_size=1, max_size=7)))
        else:
            p = draw(pwgen.password(max_frags=2))
        if p in seen or not (valid_password(p) and encodable(p, enc)) or len(p) > 24:
            continue
        seen.add(p)
        entries.append([p, draw(st.sampled_from([1, 1, 2, 3, 5]))])
    if not entries:
        entries = [['abc', 2], ['abca', 1]]
    # strings the scorer files under "e-mail" / "web site": their level must be reported like any other string's
    for v in draw(st.lists(st.sampled_from(pwgen.EMAILISH[:5] + pwgen.WEBISH[:6] + ['c@ab.com', 'abc.com', 'www.abc.com']), max_size=3, unique=True)):
        if v not in seen:
            entries.append([v, draw(st.sampled_from([1, 2, 4]))])
    return {'entries': entries, 'encoding': enc, 'ngram': draw(st.sampled_from([2, 2, 3, 4, 5])),
            'alphabet_size': draw(st.sampled_from([100, 10, 5, 3])), 'spelling': draw(st.sampled_from(trainer.SPELLINGS))}


def run_main(rec, seed, shard, nshards, tier):
    n = {'quick': 60, 'thorough': 1000}[tier]
    core.hyp_run(rec, prop, cases(), n, seed)


# ---------------------------------------------------------------- scale: lists of 10^5 passwords (written with count prefixes)
def run_big(rec, seed, shard, nshards, tier):
    """Training lists as large as real leaks, written with count prefixes so that they stay small files: a length, an initial
    n-gram and a transition that each occur ONCE among 70 000 .. 400 000 passwords (smoothed probabilities below e^-11)."""
    for total in {'quick': [70000], 'thorough': [70000, 400000]}[tier]:      # the trainer works through a count prefix one password at a time
        half = total // 2
        case = {'entries': [['abcdabcd', half], ['abcdabc', total - half - 3], ['abcdabcdabc', 1], ['dcbadcba', 1], ['abcdabca', 1]],
                'encoding': 'utf-8', 'ngram': 3, 'alphabet_size': 100, 'spelling': 'prefix', 'style': 'big_counts'}
        rec.cls('list_of_%d_passwords' % total)
        prop(case, rec)


PARTS = [
    Part('big_counts', run_big, prop, {'quick': 1, 'thorough': 1}),
    Part('three_way_levels', run_main, prop, {'quick': 8, 'thorough': 16}),
]
