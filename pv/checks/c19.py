"""C19 - equivalent encodings of a training list ($HEX[..], count prefixes, plain repeated lines) train the same
grammar; junk lines are skipped without aborting or leaking; all three passes see the same sequence."""
import hashlib
import os
import re

from hypothesis import strategies as st

from .. import core, pwgen, trainer
from ..core import Part, Violation, guard

core.use_repo()

RULE = ("Generated training FILES (bytes): entries (password, count) rendered plain-repeated / $HEX[..] / count-prefixed "
        "(uniq -c padding), LF or CRLF, interleaved junk lines (blank, tab, C0 controls and other separator characters in the "
        "middle of a line, bytes that are undecodable in the file's encoding, malformed $HEX[zz], a count without password), "
        "literal '$HEX[' look-alikes, leading/trailing/inner spaces, encodings utf-8/ascii/latin-1/cp1251/cp1252. (1) a reference "
        "line reader written from the format description predicts the yielded sequence, num_passwords and num_encoding_errors of "
        "the real TrainerFileInput; (2) the real trainer is run on the plain, the hex and the count-prefixed rendering and the "
        "three rulesets must be byte-identical apart from the uuid/filename lines; (3) the three passes of one run yield the same "
        "sequence; (4) every junk line carries a marker that must not occur in any ruleset file. Non-trivial = the file mixes >=2 "
        "renderings and >=1 junk line; distinct = hash of the file bytes. Scale part reader_long_list: 300 000 / 1.2 M ordinary lines before the first line that must be skipped, plain and count-prefixed.")
ASSUMPTIONS = ["supported encodings are the ASCII-compatible ones", "counts are plain ASCII non-negative integers",
               "passwords do not end in CR", "a run in which the trainer does not complete (too little data for OMEN) is skipped when all renderings agree on that"]

_DIR = None
MARK = 'ZQJ'


def _dir():
    global _DIR
    if _DIR is None or not os.path.isdir(_DIR):
        _DIR = core.scratch_dir('c19')
    return _DIR


ENCODINGS = ['utf-8', 'utf-8', 'ascii', 'latin-1', 'cp1251', 'cp1252']
SEPARATORS = ['\x0b', '\x0c', '\x1c', '\x1d', '\x1e', '\x85', '\u2028', '\u2029', '\r', '\x01', '\x7f\x00']


def encodable(s, enc):
    try:
        s.encode(enc)
        return True
    except UnicodeEncodeError:
        return False


def valid_password(p):
    """Independent statement of the input filter: non-empty, no tab, no C0 control, none of the Unicode line separators."""
    if p == '' or '\t' in p:
        return False
    if any(ord(c) < 0x20 for c in p):
        return False
    if any(c in p for c in ('\u2028', '\u0085', '\u2029')):
        return False
    return True


@st.composite
def entries(draw, enc):
    n = draw(st.integers(3, 14))
    out = []
    lookalikes = ['$HEX[41', 'x$HEX[41]', '$hex[41]', '$HEX[]x', ' $HEX[41]', '$HEX[', ']', '$HEX']
    for _ in range(n):
        kind = draw(st.integers(0, 9))
        if kind == 0:
            p = draw(st.sampled_from(lookalikes))
        elif kind == 1:
            p = draw(st.sampled_from([' lead', 'trail ', 'in ner', '  two  ', ' ', 'a  b']))
        elif kind == 2:
            p = draw(st.sampled_from(['12 abc', '3', '007 bond', '1 2 3']))          # starts with a number (matters for count prefixes)
        else:
            p = draw(pwgen.password(max_frags=3))
        if not valid_password(p) or not encodable(p, enc) or p.endswith('\r'):
            p = draw(st.sampled_from(['password1', 'monkey12', 'love2019', 'dragon!']))
        out.append([p, draw(st.sampled_from([1, 1, 2, 3, 5, 6, 11]))])
    return out


@st.composite
def junk(draw, enc):
    kind = draw(st.sampled_from(['blank', 'tab', 'sep', 'sep', 'undecodable', 'badhex', 'oddhex', 'nul', 'hexjunk', 'hexjunk', 'hexempty']))
    if kind == 'blank':
        return ['', b'']
    if kind == 'tab':
        return [kind, ('ab\t' + MARK + 'tab').encode(enc)]
    if kind == 'sep':
        sep = draw(st.sampled_from(SEPARATORS))
        # the text in front of the separator: short, or long enough to cross the read-ahead / buffer sizes of the line reader
        head = draw(st.sampled_from(['ab', 'ab', 'ab', 'a' * 71, 'a' * 72, 'a' * 254, 'a' * 255, 'a' * 256, 'b' * 300, 'c' * 1023, 'c' * 1024,
                                     'd' * 4096, 'e' * 8191, 'e' * 8192, 'f' * 70000]))
        try:
            return [kind, (head + sep + MARK + 'cd').encode(enc)]
        except UnicodeEncodeError:
            return [kind, (head + '\x1c' + MARK + 'cd').encode(enc)]
    if kind == 'undecodable':
        bad = {'utf-8': b'\xff\xfe', 'ascii': b'\xe9', 'cp1251': b'\x98', 'cp1252': b'\x81', 'latin-1': b'\x1f'}[enc]
        return [kind, b'ab' + bad + (MARK + 'xy').encode('ascii')]
    if kind == 'hexempty':
        return [kind, b'$HEX[]']
    if kind == 'hexjunk':
        # a password the input filter refuses, written in $HEX[] form (what hashcat does with such plains)
        inner = draw(st.sampled_from(['ab\t' + MARK + 'x', 'a\x01' + MARK, MARK + '\n' + MARK, 'ab\x1c' + MARK + 'cd', '\r' + MARK + 'x\x7f\x00']))
        return [kind, b'$HEX[' + inner.encode('ascii').hex().encode('ascii') + b']']
    if kind == 'badhex':
        return [kind, ('$HEX[zz' + MARK.encode('ascii').hex() + ']').encode('ascii')]
    if kind == 'oddhex':
        return [kind, ('$HEX[' + (MARK + 'q').encode('ascii').hex() + 'f]').encode('ascii')]
    return [kind, ('ab\x00' + MARK + 'nul').encode(enc)]


def render(entry_list, junk_list, mode, enc, eol, styles):
    """mode: 'plain' (repeat lines) | 'hex' (repeat $HEX lines) | 'prefix' (count password, --prefixcount) | 'mixed_np' | 'mixed_p'."""
    lines = []
    for i, (p, c) in enumerate(entry_list):
        style = styles[i % len(styles)]
        raw = p.encode(enc)
        hexd = raw.hex()
        if style in (2, 5):
            hexd = hexd.upper()                  # bytes.fromhex takes either case
        elif style in (3, 6):
            hexd = ''.join(ch.upper() if k % 3 == 0 else ch for k, ch in enumerate(hexd))
        hx = b'$HEX[' + hexd.encode('ascii') + b']'
        if mode == 'plain':
            lines += [raw] * c
        elif mode == 'hex':
            lines += [hx] * c
        elif mode == 'prefix':
            pad = b' ' * (style % 4)
            lines.append(pad + str(c).encode('ascii') + b' ' + (hx if style >= 4 else raw))
        elif mode == 'mixed_np':
            lines += [hx if style % 2 else raw] * c
        else:
            pad = b' ' * (style % 4)
            lines.append(pad + str(c).encode('ascii') + b' ' + (hx if style % 2 else raw))
        for j, (k, jb) in enumerate(junk_list):
            if (i + j) % max(1, len(entry_list) // max(1, len(junk_list))) == 0 and j == i % max(1, len(junk_list)):
                if mode in ('prefix', 'mixed_p') and k not in ('', 'countonly'):
                    lines.append(b'1 ' + jb)
                else:
                    lines.append(jb)
    if mode in ('prefix', 'mixed_p'):
        lines.append(b'7')                   # a count without a password
        lines.append(b'x y')                 # no count at all
    return eol.join(lines) + eol


def reference_read(data, enc, prefix):
    """Reference reader written from the format description."""
    text = data.decode(enc, errors='surrogateescape')
    lines = text.split('\n')
    if lines and lines[-1] == '':
        lines.pop()
    out, npw, nerr = [], 0, 0
    for line in lines:
        line = line.rstrip('\r\n')
        n = 1
        if prefix:
            parts = line.lstrip().split(' ')
            if not re.fullmatch(r'[0-9]+', parts[0] or 'x'):
                continue
            n = int(parts[0])
            line = ' '.join(parts[1:])
        if line.startswith('$HEX[') and line.endswith(']'):
            try:
                line = bytes.fromhex(line[5:-1]).decode(enc)
            except (ValueError, UnicodeDecodeError):
                nerr += n
                continue
        try:
            line.encode(enc)
        except UnicodeEncodeError:
            nerr += n
            continue
        if not valid_password(line):
            continue
        npw += n
        out += [line] * n
    return out, npw, nerr


def real_read(path, enc, prefix):
    from lib_trainer.trainer_file_input import TrainerFileInput
    fi = TrainerFileInput(path, enc, prefix)
    seq = list(fi.read_password())
    return seq, fi.num_passwords, fi.num_encoding_errors


@st.composite
def file_cases(draw):
    enc = draw(st.sampled_from(ENCODINGS))
    ents = draw(entries(enc))
    junks = [draw(junk(enc)) for _ in range(draw(st.integers(0, 4)))]
    mode = draw(st.sampled_from(['plain', 'hex', 'prefix', 'mixed_np', 'mixed_p', 'mixed_np', 'mixed_p']))
    eol = draw(st.sampled_from(['\n', '\n', '\r\n']))
    styles = draw(st.lists(st.integers(0, 7), min_size=1, max_size=4))
    enc2 = draw(st.sampled_from([None, 'latin-1', 'cp1251', 'iso-8859-15', 'utf-8']))
    return {'encoding': enc, 'entries': ents, 'junk': [[k, j.hex()] for k, j in junks], 'mode': mode, 'eol': eol, 'styles': styles,
            'second_encoding': enc2}


def materialise(case, mode=None):
    enc = case['encoding']
    junks = [(k, bytes.fromhex(h)) for k, h in case['junk']]
    m = mode or case['mode']
    return render(case['entries'], junks, m, enc, case['eol'].encode('ascii'), case['styles'])


def prop_reader(case, rec):
    data = materialise(case)
    prefix = case['mode'] in ('prefix', 'mixed_p')
    path = os.path.join(_dir(), 'train.txt')
    with open(path, 'wb') as f:
        f.write(data)
    got = guard(case, real_read, path, case['encoding'], prefix)
    want = reference_read(data, case['encoding'], prefix)
    mixed = case['mode'].startswith('mixed')
    cls = ['mode_' + case['mode'], 'enc_' + case['encoding'], 'eol_crlf' if case['eol'] == '\r\n' else 'eol_lf'] + ['junk_' + (k or 'blank') for k, _ in case['junk']]
    rec.case({'mode': case['mode'], 'encoding': case['encoding'], 'file_head': data[:160].decode('latin-1')}, mixed and len(case['junk']) >= 1, cls,
             key=hashlib.sha1(data).hexdigest() + case['encoding'] + str(prefix))
    if got[0] != want[0]:
        k = next((i for i, (a, b) in enumerate(zip(got[0], want[0])) if a != b), min(len(got[0]), len(want[0])))
        raise Violation('reader_sequence', f'passwords yielded differ from the reference reader at #{k}: got {got[0][k:k + 3]!r}, expected {want[0][k:k + 3]!r} '
                        f'({len(got[0])} vs {len(want[0])} passwords; mode {case["mode"]}, encoding {case["encoding"]})', case)
    if got[1] != want[1]:
        raise Violation('reader_num_passwords', f'num_passwords {got[1]} != {want[1]}', case)
    if got[2] != want[2]:
        raise Violation('reader_num_encoding_errors', f'num_encoding_errors {got[2]} != {want[2]}', case)
    # the result is a function of (bytes, encoding, prefixcount) only: the same bytes read again in this process under another
    # encoding (where $HEX[..] payloads and high bytes mean other characters), then under the first one again
    enc2 = case.get('second_encoding')
    if enc2 and enc2 != case['encoding']:
        for enc in (enc2, case['encoding']):
            got = guard(case, real_read, path, enc, prefix)
            want = reference_read(data, enc, prefix)
            if got != want:
                k = next((i for i, (a, b) in enumerate(zip(got[0], want[0])) if a != b), min(len(got[0]), len(want[0])))
                raise Violation('reader_sequence', f'the same file read again as {enc} (after a read as {case["encoding"] if enc == enc2 else enc2} in this process): '
                                f'differs from the reference reader at #{k}: got {got[0][k:k + 3]!r}, expected {want[0][k:k + 3]!r}; counters {got[1:]} vs {want[1:]}', case)
        rec.cls('reread_under_second_encoding')


# ---------------------------------------------------------------- scale: lists of several hundred thousand lines
def prop_reader_long(case, rec):
    """What a real leak looks like to the reader: `n` ordinary passwords first, and only then lines that must be skipped
    (undecodable bytes, a tab, a blank line, a bad $HEX[]) among more ordinary ones - plain and with count prefixes."""
    n, enc = case['n'], 'utf-8'
    words = [('pass%dword' % i).encode() for i in range(40)]
    tail = [b'caf\xe9 2019', b'ok1234', b'\xff\xfepass', b'ta\tb', b'', b'$HEX[zz]', b'$HEX[636166e9]', b'last1']
    path = os.path.join(_dir(), 'long.txt')
    for mode in ('plain', 'prefix'):
        if mode == 'plain':
            data = b''.join(words[i % 40] + b'\n' for i in range(n)) + b''.join(t + b'\n' for t in tail)
        else:
            data = b''.join(b'%7d ' % (n // 40) + w + b'\n' for w in words) + b''.join(b'      2 ' + t + b'\n' for t in tail)
        with open(path, 'wb') as f:
            f.write(data)
        got = guard(case, real_read, path, enc, mode == 'prefix')
        want = reference_read(data, enc, mode == 'prefix')
        rec.case({'mode': mode, 'ordinary_passwords_before_the_first_bad_line': n}, True, ['long_list_' + mode], key=['long', n, mode])
        if got[0] != want[0]:
            k = next((i for i, (a, b) in enumerate(zip(got[0], want[0])) if a != b), min(len(got[0]), len(want[0])))
            raise Violation('reader_sequence', f'{mode} list of {n} ordinary passwords followed by lines to skip: passwords yielded differ from the reference reader at #{k}: '
                            f'got {got[0][k:k + 3]!r}, expected {want[0][k:k + 3]!r} ({len(got[0])} vs {len(want[0])} passwords)', case)
        if got[1:] != want[1:]:
            raise Violation('reader_num_passwords', f'{mode} list of {n}: (num_passwords, num_encoding_errors) {got[1:]} != {want[1:]}', case)


def run_reader_long(rec, seed, shard, nshards, tier):
    for n in {'quick': [300000], 'thorough': [300000, 1200000]}[tier]:
        prop_reader_long({'n': n}, rec)


def run_reader(rec, seed, shard, nshards, tier):
    n = {'quick': 400, 'thorough': 15000}[tier]
    core.hyp_run(rec, prop_reader, file_cases(), n, seed)


# ---------------------------------------------------------------- metamorphic: three renderings, three passes, no leak
def tree(d):
    out = {}
    for root, dirs, files in os.walk(d):
        for fn in files:
            p = os.path.join(root, fn)
            data = open(p, 'rb').read()
            if fn == 'config.ini':
                data = b'\n'.join(l for l in data.split(b'\n') if not (l.startswith(b'uuid') or l.startswith(b'filename')))
            out[os.path.relpath(p, d)] = data
    return out


def prop_meta(case, rec):
    enc = case['encoding']
    results = {}
    for mode in ('plain', 'hex', 'prefix'):
        data = materialise(case, mode)
        path = os.path.join(_dir(), f'{mode}.txt')
        with open(path, 'wb') as f:
            f.write(data)
        out = os.path.join(_dir(), 'R_' + mode)
        r = guard(case, trainer.train, path, out, encoding=enc, coverage=case['coverage'], ngram=case['ngram'],
                  alphabet_size=case['alphabet_size'], prefixcount=(mode == 'prefix'))
        if r.error is not None and not isinstance(r.error, ZeroDivisionError):
            import traceback
            raise Violation('trainer_aborted', f'rendering {mode}: training aborted with {r.error!r}', case)
        results[mode] = (r, tree(out) if r.ok else None)
        if r.ok and len(r.passes) == 3:
            if not (r.passes[0] == r.passes[1] == r.passes[2]):
                raise Violation('passes_differ', f'rendering {mode}: the three passes over the training file saw different sequences '
                                f'({[len(p) for p in r.passes]})', case)
        if r.ok:
            for rel, data_ in results[mode][1].items():
                if MARK.encode('ascii') in data_ or MARK.lower().encode('ascii') in data_:
                    raise Violation('junk_leaked', f'rendering {mode}: text of a junk line appears in ruleset file {rel}', case)
    oks = {m: bool(r.ok) for m, (r, t) in results.items()}
    if len(set(oks.values())) != 1:
        raise Violation('completion_differs', f'the trainer completes for some renderings only: {oks}', case)
    cls = ['enc_' + enc] + ['junk_' + (k or 'blank') for k, _ in case['junk']]
    if not oks['plain']:
        trainer.skip_or_alarm(rec, results['plain'][0], case, case['entries'], case['alphabet_size'])
        return
    rec.case({'encoding': enc, 'entries': case['entries'][:4], 'junk': [k for k, _ in case['junk']]}, len(case['junk']) >= 1, cls, key=case)
    base = results['plain'][1]
    for mode in ('hex', 'prefix'):
        other = results[mode][1]
        if set(other) != set(base):
            raise Violation('ruleset_files_differ', f'{mode} vs plain: file sets differ: {sorted(set(other) ^ set(base))[:6]}', case)
        for rel in base:
            if base[rel] != other[rel]:
                raise Violation('ruleset_differs', f'{mode} vs plain: {rel} differs: {other[rel][:120]!r} vs {base[rel][:120]!r}', case)


@st.composite
def meta_cases(draw):
    c = draw(file_cases())
    c['coverage'] = draw(st.sampled_from([0.6, 1, 0.3]))
    c['ngram'] = draw(st.sampled_from([2, 3, 4]))
    c['alphabet_size'] = draw(st.sampled_from([100, 30, 10]))
    # enough plain material for the OMEN part to complete
    c['entries'] = c['entries'] + [['password1', 6], ['monkey12', 5], ['iloveyou', 5], ['love2019!', 2]]
    return c


# ---------------------------------------------------------------- the same through trainer.py (real process, real stdout)
_CLI19 = [None]


def prop_meta_cli(case, rec):
    """Each rendering of the list is trained by trainer.py as a subprocess under a drawn invocation context (among them a stdout
    whose error handler is 'strict', as on an ordinary UTF-8 terminal): all renderings complete or none, and give one ruleset."""
    import shutil
    import subprocess
    from .. import cli, session
    if _CLI19[0] is None or not os.path.isdir(_CLI19[0]):
        _CLI19[0] = session.copy_cli(session.make_root('c19cli'))
    root = _CLI19[0]
    enc = case['encoding']
    ctx = case.get('context') or cli.DEFAULT
    shutil.rmtree(os.path.join(root, 'Rules'), ignore_errors=True)
    os.makedirs(os.path.join(root, 'Rules'))
    trees, rcs = {}, {}
    for mode in ('plain', 'hex', 'prefix'):
        data = materialise(case, mode)
        path = os.path.join(_dir(), f'cli_{mode}.txt')
        with open(path, 'wb') as f:
            f.write(data)
        name = 'R ' + mode
        try:
            p = cli.run(root, 'trainer.py', ['-t', path, '-r', name, '-e', enc, '-c', str(case['coverage']), '-n', str(case['ngram']), '-a',
                                              str(max(10, case['alphabet_size']))] + (['--prefixcount'] if mode == 'prefix' else []), ctx, timeout=600, rule_name=name)
        except subprocess.TimeoutExpired:
            rec.skip('cli_timeout_inconclusive')
            return
        d = os.path.join(root, 'Rules', name)
        rcs[mode] = (p.returncode, p.stderr.decode('utf-8', 'replace')[-300:])
        trees[mode] = tree(d) if os.path.exists(os.path.join(d, 'config.ini')) else None
        if trees[mode]:
            for rel, data_ in trees[mode].items():
                if MARK.encode('ascii') in data_ or MARK.lower().encode('ascii') in data_:
                    raise Violation('junk_leaked', f'trainer.py, rendering {mode}: text of a junk line appears in ruleset file {rel}', case)
    rec.case({'encoding': enc, 'context': ctx, 'junk': [k for k, _ in case['junk']], 'completed': {m: bool(t) for m, t in trees.items()}}, len(case['junk']) >= 1,
             ['cli_renderings'] + cli.label(ctx) + ['junk_' + (k or 'blank') for k, _ in case['junk']], key=[case, 'cli'])
    oks = {m: t is not None for m, t in trees.items()}
    if len(set(oks.values())) != 1:
        raise Violation('completion_differs', f'trainer.py ({ctx}) completes for some renderings only: {oks}; return codes / stderr tails: {rcs}', case)
    # the command-line tool completes exactly when the library does on the same file, and writes the same ruleset
    lib_out = os.path.join(_dir(), 'R_cli_lib')
    rl = guard(case, trainer.train, os.path.join(_dir(), 'cli_plain.txt'), lib_out, encoding=enc, coverage=case['coverage'], ngram=case['ngram'],
               alphabet_size=max(10, case['alphabet_size']), save_sensitive=False)
    if bool(rl.ok) != oks['plain']:
        raise Violation('cli_completion', f'run_trainer() completed: {bool(rl.ok)}, trainer.py ({ctx}) wrote a ruleset: {oks["plain"]}; rc / stderr tail: {rcs["plain"]}', case)
    if not oks['plain']:
        rec.skip('trainer_did_not_complete')
        return
    base = trees['plain']
    lib_tree = tree(lib_out)
    if lib_tree != base:
        diff = sorted(k for k in set(lib_tree) | set(base) if lib_tree.get(k) != base.get(k))
        raise Violation('cli_differs_from_library', f'trainer.py ({ctx}) and run_trainer() write different rulesets for the same file: {diff[:6]}', case)
    for mode in ('hex', 'prefix'):
        other = trees[mode]
        if set(other) != set(base):
            raise Violation('ruleset_files_differ', f'trainer.py {mode} vs plain: file sets differ: {sorted(set(other) ^ set(base))[:6]}', case)
        for rel in base:
            if base[rel] != other[rel]:
                raise Violation('ruleset_differs', f'trainer.py {mode} vs plain: {rel} differs: {other[rel][:120]!r} vs {base[rel][:120]!r}', case)


RUSSIAN = ['пароль', 'привет', 'любовь', 'солнце', 'наташа', 'максим', 'марина', 'андрей', 'кристина', 'алексей', 'сергей', 'виктория', 'спартак', 'зенит',
           'москва', 'россия', 'котенок', 'зайчик', 'принцесса', 'дракон', 'мастер', 'ангел', 'золото', 'счастье', 'здоровье', 'родина', 'победа', 'весна']


def prop_autodetect(case, rec):
    """trainer.py WITHOUT -e: the encoding is detected from the file. A list whose non-ASCII passwords are written as $HEX[] must be
    detected - and so trained - like the plain list it spells (the detector decodes $HEX[] lines before it looks at the bytes)."""
    import shutil
    import subprocess
    from .. import cli, session
    if _CLI19[0] is None or not os.path.isdir(_CLI19[0]):
        _CLI19[0] = session.copy_cli(session.make_root('c19cli'))
    root = _CLI19[0]
    enc = case['encoding']
    shutil.rmtree(os.path.join(root, 'Rules'), ignore_errors=True)
    os.makedirs(os.path.join(root, 'Rules'))
    pws = [w + sfx for w, sfx in case['words']]
    trees, det = {}, {}
    for mode in ('plain', 'hex'):
        lines = []
        for p_ in pws:
            raw = p_.encode(enc)
            lines.append(raw if mode == 'plain' or p_.isascii() else b'$HEX[' + raw.hex().encode('ascii') + b']')
        path = os.path.join(_dir(), f'auto_{mode}.txt')
        with open(path, 'wb') as f:
            f.write(b'\n'.join(lines) + b'\n')
        try:
            p = cli.run(root, 'trainer.py', ['-t', path, '-r', 'A ' + mode, '-c', '0.6', '-n', '3'], case.get('context') or cli.DEFAULT, timeout=600)
        except subprocess.TimeoutExpired:
            rec.skip('cli_timeout_inconclusive')
            return
        out = p.stdout.decode('utf-8', 'replace')
        det[mode] = next((l.strip() for l in out.split('\n') if 'ncoding' in l and 'etect' in l), None)
        d = os.path.join(root, 'Rules', 'A ' + mode)
        trees[mode] = tree(d) if os.path.exists(os.path.join(d, 'config.ini')) else None
    rec.case({'encoding': enc, 'passwords': len(pws), 'detected': det}, True, ['cli_autodetected_encoding', 'enc_' + enc], key=[case, 'auto'])
    if (trees['plain'] is None) != (trees['hex'] is None):
        raise Violation('completion_differs', f'trainer.py without -e completes for one spelling only: plain {trees["plain"] is not None}, hex {trees["hex"] is not None}; detected: {det}', case)
    if trees['plain'] is None:
        rec.skip('trainer_did_not_complete')
        return
    diff = sorted(k for k in set(trees['plain']) | set(trees['hex']) if trees['plain'].get(k) != trees['hex'].get(k))
    if diff:
        raise Violation('ruleset_differs', f'trainer.py without -e: the $HEX[] spelling of a {enc} list trains another ruleset than the plain list: {diff[:6]}; '
                        f'encodings reported: {det}', case)


@st.composite
def autodetect_cases(draw):
    from .. import cli
    ws = draw(st.lists(st.sampled_from(RUSSIAN), min_size=24, max_size=28, unique=True))
    words = [[w, draw(st.sampled_from(['', '', '1', '12', '2019', '!']))] for w in ws] * 2
    return {'encoding': draw(st.sampled_from(['cp1251', 'koi8-r'])), 'words': words, 'context': draw(cli.contexts(rule_names=False))}


def run_autodetect(rec, seed, shard, nshards, tier):
    n = {'quick': 2, 'thorough': 20}[tier]
    core.hyp_run(rec, prop_autodetect, autodetect_cases(), n, seed, shrink=False)


def run_meta_cli(rec, seed, shard, nshards, tier):
    from .. import cli
    n = {'quick': 3, 'thorough': 40}[tier]
    def with_ctx(t):
        c = dict(t[0], context=t[1])
        if t[2]:
            # a plain line with bytes the encoding cannot decode (the reader hands such a line on with surrogate escapes)
            bad = {'utf-8': b'\xff\xfe', 'ascii': b'\xe9', 'cp1251': b'\x98', 'cp1252': b'\x81', 'latin-1': b'\x1f'}[c['encoding']]
            c['junk'] = list(c['junk']) + [['undecodable', (b'caf' + bad + (MARK + 'xy').encode('ascii')).hex()]]
        return c
    strat = st.tuples(meta_cases(), cli.contexts(rule_names=False, io_modes=('utf8', 'utf8_strict', 'utf8_strict')), st.booleans()).map(with_ctx)
    core.hyp_run(rec, prop_meta_cli, strat, n, seed, shrink=(tier == 'thorough'))


def run_meta(rec, seed, shard, nshards, tier):
    n = {'quick': 25, 'thorough': 800}[tier]
    core.hyp_run(rec, prop_meta, meta_cases(), n, seed)


F19_CASE = {'encoding': 'utf-8', 'entries': [['password1', 6], ['monkey12', 5], ['iloveyou', 5]], 'mode': 'plain', 'eol': '\n', 'styles': [0],
            'junk': [['sep', ('ab\x1c' + MARK + 'cd').encode().hex()], ['sep', ('ef\u2028' + MARK + 'gh').encode().hex()],
                     ['sep', ('mn\r' + MARK + 'op').encode().hex()], ['sep', ('qr\u2029' + MARK + 'st').encode().hex()]],
            'coverage': 0.6, 'ngram': 3, 'alphabet_size': 100}


def run_regress(rec, seed, shard, nshards, tier):
    prop_reader(F19_CASE, rec)
    prop_meta(F19_CASE, rec)


def prop_fuzz_replay(case, rec):
    if 'fuzz_bytes' not in case:
        return prop_meta(case, rec) if 'coverage' in case else prop_reader(case, rec)
    body = bytes.fromhex(case['fuzz_bytes'])
    path = os.path.join(_dir(), 'fz.txt')
    with open(path, 'wb') as f:
        f.write(body)
    got = guard(case, real_read, path, case['encoding'], case['prefix'])
    want = reference_read(body, case['encoding'], case['prefix'])
    if got[0] != want[0] or got[1] != want[1] or got[2] != want[2]:
        raise Violation('reader_vs_reference', f'real reader {got[0][:4]!r} n={got[1]} err={got[2]}, reference {want[0][:4]!r} n={want[1]} err={want[2]}', case)


def run_fuzz(rec, seed, shard, nshards, tier):
    """atheris (coverage-guided) on the training-file reader, reference reader as the oracle inside the target."""
    runs = {'quick': 0, 'thorough': 600000}[tier]
    if not runs:
        return
    corpus = None
    if shard == 1:
        corpus = [b'\x00password1\npassword1\n$HEX[6162]\n', b'\x01 3 abc\n2 $HEX[c3a9]\n7\n', b'\x02ab\x1ccd\r\nxy\n', b'\x05 2 \xe9t\xe9\n']
    core.run_atheris(rec, 'c19', runs, seed, corpus=corpus, max_len=128,
                     dictionary=[b'$HEX[', b']', b'\n', b'\r\n', b' ', b'3 ', b'\t', b'\xe2\x80\xa8', b'\xc2\x85', b'\x1c', b'6162', b'\xff'])


PARTS = [
    Part('reader_long_list', run_reader_long, prop_reader_long, {'quick': 1, 'thorough': 1}),
    Part('atheris_fuzz', run_fuzz, prop_fuzz_replay, {'quick': 0, 'thorough': 2}),
    Part('regression_f19', run_regress, prop_meta, {'quick': 1, 'thorough': 1}),
    Part('reader_vs_reference', run_reader, prop_reader, {'quick': 8, 'thorough': 16}),
    Part('renderings_train_same_ruleset', run_meta, prop_meta, {'quick': 8, 'thorough': 16}),
    Part('cli_renderings', run_meta_cli, prop_meta_cli, {'quick': 4, 'thorough': 8}),
    Part('cli_autodetected_encoding', run_autodetect, prop_autodetect, {'quick': 2, 'thorough': 8}),
]
