"""C01 - guesses are emitted in non-increasing probability order; the attached probability is the product;
the sequence is a deterministic function of ruleset and flags."""
import json
import os
import subprocess
import sys
from fractions import Fraction

from hypothesis import strategies as st

from .. import core, rsmodel, strategies as S
from ..core import Part, Violation, guard

RULE = ("Hypothesis-generated synthetic rulesets (written by the harness in the trainer's format, so the model is "
        "ground truth) x flag sets (skip_brute, all_lower, Grammar/Prince folder); the real PcfgGrammar + PcfgQueue "
        "are drained to exhaustion. Non-trivial = at least one base structure has >=2 variables with >=2 probability "
        "groups each (a DAG with joins); distinct = hash of (model, flags). Scale part large_queue: a ruleset of 59 049 base structures (the queue holds more than 50 000 entries from the start); the i-th emitted pre-terminal must have the i-th largest probability of the ruleset and be new, for the first 60 000 / 400 000 pops.")
ASSUMPTIONS = ["ruleset files are well-formed: each list is sorted by non-increasing probability (as the trainer writes them)",
               "probabilities are finite floats in (0,1]; products may underflow to denormals or 0.0",
               "P(Markov) < 1 when skip_brute is used"]

FLAGSETS = [
    {'skip_brute': False, 'skip_case': False, 'folder': 'Grammar'},
    {'skip_brute': True, 'skip_case': False, 'folder': 'Grammar'},
    {'skip_brute': False, 'skip_case': True, 'folder': 'Grammar'},
    {'skip_brute': True, 'skip_case': True, 'folder': 'Grammar'},
    {'skip_brute': False, 'skip_case': False, 'folder': 'Prince'},
    {'skip_brute': False, 'skip_case': True, 'folder': 'Prince'},
]

_DIR = None


def _dir():
    global _DIR
    if _DIR is None or not os.path.isdir(_DIR):
        _DIR = core.scratch_dir('c01')
    return _DIR


def drain(m, flags, rdir=None):
    from .. import guesser
    rdir = rdir or os.path.join(_dir(), 'R')
    rsmodel.write_ruleset(rdir, m)
    g = guesser.load(rdir, skip_brute=flags['skip_brute'], skip_case=flags['skip_case'],
                     base_structure_folder=flags['folder'])
    return guesser.run_queue(g)


def band(exact, nfactors):
    return float(exact) * (nfactors + 2) * 2.0 ** -52 + (nfactors + 2) * 5e-324


def prop(case, rec):
    m, flags = case['model'], case['flags']
    vs, base = rsmodel.effective(m, flags['skip_brute'], flags['skip_case'], flags['folder'])
    if not base:
        rec.skip('no_base_structure_under_flags')
        return
    res = guard(case, drain, m, flags)
    nontriv = any(sum(1 for t in toks if len(vs[t]) >= 2) >= 2 for toks, _, _ in base)
    cls = S.describe(m) + [f"flags:{int(flags['skip_brute'])}{int(flags['skip_case'])}{flags['folder'][0]}"]
    probs = [r[1] for r in res]
    ties = len(probs) - len(set(probs))
    if ties:
        cls.append('tied_preterminals')
    if any(p == 0.0 for p in probs):
        cls.append('underflow_to_zero')
    rec.case(case, nontriv, cls)
    if not res:
        raise Violation('empty', 'no pre-terminal emitted although the ruleset has base structures under these flags', case)
    # (a) non-increasing on the tool's own floats, for every prefix
    for i in range(len(probs) - 1):
        if not probs[i] >= probs[i + 1]:
            raise Violation('order', f'pre-terminal #{i + 1} {res[i + 1][0]} has prob {probs[i + 1]!r} > previous {res[i][0]} {probs[i]!r}', case)
    # (b) attached probability == base probability x chosen group probabilities (exact rational, ulp band)
    bps = {}
    for toks, bp, s in base:
        bps.setdefault(tuple(toks), set()).add(bp)
    for pt, prob, base_prob, _, _ in res:
        toks = tuple(t for t, _ in pt)
        if toks not in bps:
            raise Violation('unknown_structure', f'emitted pre-terminal {pt} is not a base structure of the ruleset', case)
        for t, i in pt:
            if not 0 <= i < len(vs[t]):
                raise Violation('unknown_group', f'emitted pre-terminal {pt} indexes a group that does not exist', case)
        ok = False
        for bp in bps[toks]:
            ex = rsmodel.exact_prob(vs, bp, pt)
            if abs(Fraction(prob) - ex) <= Fraction(band(ex, len(pt))):
                ok = True
        if not ok:
            raise Violation('prob_value', f'pre-terminal {pt}: tool prob {prob!r}, exact product(s) {[float(rsmodel.exact_prob(vs, bp, pt)) for bp in bps[toks]]}', case)
    # (d) determinism in-process: a second fresh load + run gives the identical sequence
    res2 = guard(case, drain, m, flags)
    if [(r[0], r[1]) for r in res] != [(r[0], r[1]) for r in res2]:
        raise Violation('nondeterministic', 'two fresh runs over the same ruleset and flags differ', case)


@st.composite
def cases(draw, max_pt):
    flags = draw(st.sampled_from(FLAGSETS))
    m = draw(S.rulesets(max_pt=max_pt, prince=flags['folder'] == 'Prince'))
    return {'model': m, 'flags': flags}


def run_order(rec, seed, shard, nshards, tier):
    n = {'quick': 150, 'thorough': 4000}[tier]
    core.hyp_run(rec, prop, cases(600 if tier == 'quick' else 3000), n, seed)


# ---------------------------------------------------------------- subprocess determinism (other hash seeds)
HELPER = r'''
import sys, json, io, contextlib
sys.path.insert(0, sys.argv[1]); sys.dont_write_bytecode = True
from lib_guesser.pcfg_grammar import PcfgGrammar
from lib_guesser.priority_queue import PcfgQueue
fl = json.loads(sys.argv[3])
with contextlib.redirect_stdout(io.StringIO()), contextlib.redirect_stderr(io.StringIO()):
    g = PcfgGrammar('T', sys.argv[2], '4.7', save_file=None, skip_brute=fl['skip_brute'], skip_case=fl['skip_case'], base_structure_folder=fl['folder'])
    q = PcfgQueue(g)
out = []
while True:
    it = q.next()
    if it is None: break
    out.append([[list(x) for x in it['pt']], repr(it['prob'])])
json.dump(out, sys.stdout)
'''


def prop_sub(case, rec):
    m, flags = case['model'], case['flags']
    vs, base = rsmodel.effective(m, flags['skip_brute'], flags['skip_case'], flags['folder'])
    if not base:
        rec.skip('no_base_structure_under_flags')
        return
    rdir = os.path.join(_dir(), 'RS')
    ref = guard(case, drain, m, flags, rdir)
    ref = [[[list(x) for x in r[0]], repr(r[1])] for r in ref]
    outs = []
    for hs in case['hashseeds']:
        env = dict(os.environ, PYTHONHASHSEED=str(hs))
        p = subprocess.run([sys.executable, '-c', HELPER, core.REPO, rdir, json.dumps(flags)], env=env,
                           capture_output=True, text=True, timeout=600)
        if p.returncode != 0:
            raise Violation('crash:subprocess', p.stderr[-1500:], case)
        outs.append(json.loads(p.stdout))
    nontriv = any(sum(1 for t in toks if len(vs[t]) >= 2) >= 2 for toks, _, _ in base)
    rec.case(case, nontriv, ['subprocess_determinism'])
    for o in outs:
        if o != ref:
            raise Violation('nondeterministic_across_processes', 'sequence differs between processes with different PYTHONHASHSEED', case)


@st.composite
def cases_sub(draw):
    c = draw(cases(300))
    c['hashseeds'] = [draw(st.integers(1, 10 ** 6)), draw(st.integers(1, 10 ** 6))]
    return c


def run_sub(rec, seed, shard, nshards, tier):
    n = {'quick': 6, 'thorough': 60}[tier]
    core.hyp_run(rec, prop_sub, cases_sub(), n, seed, shrink=(tier == 'thorough'))


# ---------------------------------------------------------------- scale: a queue that holds more than 50 000 entries
LQ_VARS = ['D1', 'D2', 'D3', 'D4', 'O1', 'O2', 'O3', 'K4', 'Y1']


def large_queue_model():
    """9^5 = 59 049 base structures with pairwise distinct probabilities (the queue starts with one entry per structure, more than
    the 50 000 that the source names as its intended maximum), three of the nine variables with two groups."""
    import itertools
    vals = {'D1': ['1', '2'], 'D2': ['11', '22'], 'D3': ['111', '222'], 'D4': ['1111'], 'O1': ['!'], 'O2': ['!!'], 'O3': ['!!!'], 'K4': ['qwer'], 'Y1': ['1999']}
    vars_ = {}
    for k, v in vals.items():
        vars_[k] = [[0.75, [v[0]]], [0.25, [v[1]]]] if len(v) == 2 else [[1.0, [v[0]]]]
    structs = [''.join(t) for t in itertools.product(LQ_VARS, repeat=5)]
    total = len(structs) * (len(structs) + 1) // 2
    base = [[st_, (len(structs) - i) / total] for i, st_ in enumerate(structs)]
    return {'encoding': 'utf-8', 'uuid': 'c01-large-queue', 'vars': vars_, 'base': base, 'm_levels': []}


def prop_large_queue(case, rec):
    from .. import guesser
    import itertools
    k = case['pops']
    m = large_queue_model()
    rdir = os.path.join(_dir(), 'LQ')
    rsmodel.write_ruleset(rdir, m)
    g = guard(case, guesser.load, rdir)
    # every pre-terminal's probability, multiplied in the order the documentation states (base, then left to right)
    gp = {name: [float(p) for p, _ in groups] for name, groups in m['vars'].items()}
    expected = []
    for st_, bp in m['base']:
        toks = rsmodel.tokens(st_)
        for idx in itertools.product(*[range(len(gp[t])) for t in toks]):
            p = bp
            for t, i in zip(toks, idx):
                p *= gp[t][i]
            expected.append(p)
    expected.sort(reverse=True)
    q = guesser.new_queue(g)
    biggest = len(q.p_queue)
    seen = set()
    for i in range(min(k, len(expected))):
        it = guard(case, q.next)
        if it is None:
            raise Violation('ends_early', f'the queue reports exhaustion after {i} of {len(expected)} pre-terminals', case)
        biggest = max(biggest, len(q.p_queue))
        key = (it['base_prob'], tuple((a, b) for a, b in it['pt']))
        if key in seen:
            raise Violation('repeated', f'pre-terminal #{i} {it["pt"]} (probability {it["prob"]!r}) was emitted before', case)
        seen.add(key)
        # the i-th emitted pre-terminal has the i-th largest probability of the ruleset: order, nothing lost, nothing repeated
        if abs(it['prob'] - expected[i]) > 1e-9 * expected[i]:
            raise Violation('order', f'pre-terminal #{i} {it["pt"]} has probability {it["prob"]!r}; the {i}-th largest probability of the ruleset is {expected[i]!r} '
                            f'(the queue held up to {biggest} entries)', case)
    rec.case({'base_structures': len(m['base']), 'pops': k, 'largest_queue': biggest}, True, ['queue_of_more_than_50000_entries'] if biggest > 50000 else ['queue_small'],
             key=['large_queue', k])


def run_large_queue(rec, seed, shard, nshards, tier):
    prop_large_queue({'pops': {'quick': 60000, 'thorough': 400000}[tier]}, rec)


PARTS = [
    Part('large_queue', run_large_queue, prop_large_queue, {'quick': 1, 'thorough': 1}),
    Part('order', run_order, prop, {'quick': 8, 'thorough': 16}),
    Part('subprocess_determinism', run_sub, prop_sub, {'quick': 4, 'thorough': 8}),
]
