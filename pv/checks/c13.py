"""C13 - a non-zero score is a promise the guesser keeps: the guesser emits that exact string from a pre-terminal of
(about) that probability; e-mail/website strings are classified as such with probability 0; scoring is pure."""
import os

from hypothesis import strategies as st

from .. import core, pwgen, trainer
from ..core import Part, Violation, guard

core.use_repo()

RULE = ("Hypothesis-generated training lists through the real trainer (one case in four then has base structures removed from grammar.txt without renormalising, as edit_rules.py leaves a ruleset); the real guesser is run over the whole ruleset (default flags, "
        "Markov pre-terminals not expanded) to build the language map string -> {pre-terminal probabilities}; the real scorer "
        "(constructed as password_scorer.py does) scores candidates: all training passwords, a sample of guesser output, case / "
        "digit / symbol perturbations of both, generated unrelated strings, e-mail and website strings. Oracle: score p > 0 => the "
        "string is in the map with some probability q, |p-q| <= 1e-9*q; a string in which the e-mail/website detectors find "
        "something has category e/w and p == 0; scoring the same string again after others, and on a second scorer asked in reverse order, returns the identical tuple (half of the lists carry a block of same-length words with counts 1..8 plus multi-words of the frequent ones, without which the scorer's multi-word detector stays empty); password_scorer.py run as a subprocess must write exactly the library's tuples. "
        "Non-trivial = p > 0 for a string that is not a training password, or a candidate whose mask/length/structure is absent "
        "from the ruleset (p == 0 although segments exist); distinct = hash of (list, options, candidate).")
ASSUMPTIONS = ["languages above 40000 guesses are skipped and counted", "a run in which the trainer does not complete is skipped and counted"]

_DIR = None


def _dir():
    global _DIR
    if _DIR is None or not os.path.isdir(_DIR):
        _DIR = core.scratch_dir('c13')
    return _DIR


def build_scorer(rule_dir, case):
    from lib_scorer.pcfg_password_scorer import PCFGPasswordScorer
    from lib_scorer.grammar_io import load_grammar
    # the cut-off below which a string is classified 'other' (password_scorer.py --limit): it must not change the probability reported
    sc = PCFGPasswordScorer(limit=case.get('limit', 0))
    with core.quiet():
        if not guard(case, load_grammar, sc, rule_dir):
            raise Violation('scorer_load_failed', 'the scorer could not load a ruleset the trainer just wrote', case)
        guard(case, sc.create_multiword_detector)
        guard(case, sc.create_omen_scorer, rule_dir, 9)
    return sc


def detect_ew(s):
    from lib_trainer.detection_rules.keyboard_walk import detect_keyboard_walk
    from lib_trainer.detection_rules.email_detection import email_detection
    from lib_trainer.detection_rules.website_detection import website_detection
    sl, _, _ = detect_keyboard_walk(s)
    em, _ = email_detection(sl)
    ur, _, _ = website_detection(sl)
    return bool(em), bool(ur)


def perturb(s):
    out = []
    if s:
        out += [s.swapcase(), s.capitalize(), s.upper(), s.lower(), s + '1', s + '!', '1' + s, s[:-1], s[1:], s + s, s[::-1]]
        out += [s[:i] + s[i].upper() + s[i + 1:] for i in range(min(len(s), 4)) if s[i].isalpha()]
        out += [s.replace('1', '2', 1), s.replace('a', '@', 1), s.replace('o', '0', 1)]
    return out


def prop(case, rec):
    from .. import guesser
    enc = case['encoding']
    pws = []
    for p, c in case['entries']:
        pws += [p] * c
    path = os.path.join(_dir(), 'train.txt')
    trainer.write_training_file(path, pws, enc)
    out = os.path.join(_dir(), 'R')
    r = guard(case, trainer.train, path, out, encoding=enc, coverage=case['coverage'], ngram=case['ngram'], alphabet_size=100)
    if not r.ok:
        if r.error is not None and not isinstance(r.error, ZeroDivisionError):
            raise Violation('crash:' + type(r.error).__name__, f'run_trainer raised {r.error!r}', case)
        trainer.skip_or_alarm(rec, r, case, case['entries'], 100)
        return
    if case.get('drop_structs'):
        # base structures removed from Grammar/grammar.txt without renormalising - what edit_rules.py leaves behind; the
        # scorer and the guesser read the same narrowed list
        gpath = os.path.join(out, 'Grammar', 'grammar.txt')
        with open(gpath, 'rb') as f:
            glines = f.read().splitlines(keepends=True)
        drop = {i % len(glines) for i in case['drop_structs']} if glines else set()
        kept = [l for i, l in enumerate(glines) if i not in drop]
        if not kept or len(kept) == len(glines):
            rec.skip('nothing_left_after_edit')
            return
        with open(gpath, 'wb') as f:
            f.write(b''.join(kept))
        rec.cls('edited_ruleset')
    g = guard(case, guesser.load, out)
    q = guesser.new_queue(g)
    lang = {}
    nguess = 0
    while True:
        it = guard(case, q.next)
        if it is None:
            break
        if it['pt'][0][0] == 'M':
            continue
        size = 1
        for t, i in it['pt']:
            size *= len(g.grammar[t][i]['values'])
        nguess += size
        if nguess > 40000:
            rec.skip('language_too_large')
            return
        lines, _ = guard(case, guesser.capture_guesses, g, it['pt'])
        for s in lines:
            lang.setdefault(s, []).append(it['prob'])
    sc = build_scorer(out, case)
    train_set = set(pws)
    cands = list(dict.fromkeys(pws))
    sample = sorted(lang)[::max(1, len(lang) // 25)][:25]
    cands += sample
    for s in list(dict.fromkeys(pws))[:12] + sample[:8]:
        cands += perturb(s)
    odd = [c for k in ('case_odd', 'U0130') for c in pwgen.SPECIAL[k] if len(c) == 1] + ['\u01c8', '\u01cb', '\u01f2', '\u2126', '\u212b']
    for s in list(dict.fromkeys(pws))[:6]:
        for c in odd:
            # letters whose case mapping is not one-to-one, in place of / next to ordinary letters
            cands += [c + s[1:], s[:1] + c + s[2:], s + c]
    # two detectors touching: a website / e-mail right next to a keyboard walk, a year or digits
    for base_ in pwgen.WEBISH[:5] + pwgen.EMAILISH[:4]:
        for w_ in ('zaq1', '1qaz', 'qwer4', '2019', '12'):
            cands += [base_ + w_, w_ + base_]
    # spellings that other tools of the repository decode ($HEX[..] is a trainer input convention): to the scorer they are literal strings
    for s in list(dict.fromkeys(pws))[:6] + sample[:4]:
        try:
            hx = s.encode(case.get('encoding') or 'utf-8').hex()
        except (UnicodeError, LookupError):
            continue
        cands += ['$HEX[' + hx + ']', '$HEX[' + hx.upper() + ']']
    cands += case.get('extra', []) + pwgen.EMAILISH + pwgen.WEBISH + ['', ' ', 'zzzzzz', '9999', '!!!!', 'Zq#1', 'abc def'] + odd
    cands = [c for c in dict.fromkeys(cands) if isinstance(c, str)]
    first = {}
    for s in cands:
        res = guard(case, sc.parse, s)
        first[s] = res
        pw, cat, p, omen = res
        is_e, is_w = detect_ew(s)
        cls = ['category_' + cat]
        novel = p > 0 and s not in train_set
        absent = p == 0 and not (is_e or is_w) and s not in lang and s != ''
        if novel:
            cls.append('positive_score_for_non_training_string')
        if p > 0:
            cls.append('positive_score')
        rec.case({'string': s, 'score': p, 'category': cat, 'in_language': s in lang}, novel or absent, cls,
                 key=[case['entries'], case['coverage'], case['ngram'], enc, s])
        sub = dict(case, extra=[s])
        if pw != s:
            raise Violation('echo', f'scorer returned {pw!r} for input {s!r}', sub)
        if is_e or is_w:
            want = 'e' if is_e else 'w'
            if cat != want or p != 0:
                raise Violation('email_website', f'string {s!r}: e-mail detected={is_e}, website detected={is_w}, but the scorer says category {cat!r} probability {p!r}', sub)
            continue
        if p > 0:
            qs = lang.get(s)
            if not qs:
                raise Violation('promise_broken', f'string {s!r} is scored {p!r} but the guesser never emits it ({nguess} guesses from this ruleset)', sub)
            if not any(abs(p - q_) <= 1e-9 * q_ for q_ in qs):
                raise Violation('promise_probability', f'string {s!r} is scored {p!r}; the guesser emits it only from pre-terminals of probability {qs[:4]}', sub)
        elif p < 0:
            raise Violation('negative_score', f'string {s!r} scored {p!r}', sub)
    # purity: the score depends only on the string and the ruleset
    for s in cands[::3]:
        again = guard(case, sc.parse, s)
        if again != first[s]:
            raise Violation('impure', f'string {s!r}: first scored {first[s]}, after scoring other strings {again}', dict(case, extra=[s]))
    # ... nor on the classification cut-off the scorer was built with
    if case.get('limit'):
        sc0 = build_scorer(out, dict(case, limit=0))
        rec.cls('scorer_with_cut_off')
        for s in cands:
            p0 = guard(case, sc0.parse, s)[2]
            if p0 != first[s][2]:
                raise Violation('depends_on_cut_off', f'string {s!r}: probability {first[s][2]!r} from a scorer with --limit {case["limit"]}, {p0!r} with --limit 0',
                                dict(case, extra=[s]))
    # ... and not on what the scorer object was asked before: a second scorer over the same ruleset, asked in reverse order
    sc2 = build_scorer(out, case)
    if sc2.multiword_detector.lookup:
        rec.cls('scorer_knows_multiwords')
    for s in reversed(cands):
        res2 = guard(case, sc2.parse, s)
        if res2 != first[s]:
            raise Violation('impure', f'string {s!r}: scored {first[s]} by a scorer asked in one order and {res2} by a scorer (same ruleset) '
                            f'asked in the reverse order', dict(case, extra=[s]))


@st.composite
def cases(draw):
    from .c19 import valid_password, encodable
    enc = draw(st.sampled_from(['utf-8', 'utf-8', 'utf-8', 'latin-1', 'cp1251']))
    n = draw(st.integers(1, 12))
    entries, seen = [], set()
    for _ in range(n):
        p = draw(pwgen.password(max_frags=3))
        if p in seen or not (valid_password(p) and encodable(p, enc)) or len(p) > 24:
            continue
        seen.add(p)
        entries.append([p, draw(st.sampled_from([1, 1, 2, 3, 5, 6]))])
    base = [['password1', 6], ['Monkey12', 5], ['iloveyou', 5], ['love2019!', 2], ['lovemonkey', 1], ['1qaz2wsx', 2]]
    entries += [e for e in base if e[0] not in seen]
    extra = [draw(pwgen.password(max_frags=2)) for _ in range(draw(st.integers(0, 6)))]
    drop = draw(st.lists(st.integers(0, 11), min_size=1, max_size=3)) if draw(st.integers(0, 3)) == 0 else []
    if draw(st.booleans()):
        # a block that makes the SCORER's multi-word detector non-empty: it only learns words above the five rarest probability
        # classes of their length, so eight words of one length with counts 1..8 are trained, plus multi-words built from the
        # frequent ones; candidates are the multi-words, their tails / heads at word boundaries and recombinations
        L = draw(st.sampled_from([4, 4, 5]))
        pool = {4: ['cats', 'dogs', 'bird', 'fish', 'moon', 'star', 'blue', 'king', 'rock', 'wolf'],
                5: ['chair', 'table', 'house', 'tiger', 'green', 'water', 'stone', 'eagle', 'piano']}[L]
        words = draw(st.lists(st.sampled_from(pool), min_size=8, max_size=8, unique=True))
        tail = draw(st.sampled_from(['', '5828', '!', '12']))
        have = {e[0] for e in entries}
        for i, w in enumerate(words):
            if w in have:
                entries = [e for e in entries if e[0] != w]
            entries.append([w, i + 1])
        top = words[4:]            # counts 5..8: the trainer (threshold 5) may split multi-words made of these
        mws = []
        for _ in range(draw(st.integers(1, 3))):
            k = draw(st.integers(2, 4))
            parts = [draw(st.sampled_from(top)) for _ in range(k)]
            mw = ''.join(parts) + tail
            if len(mw) <= 24 and mw not in {e[0] for e in entries}:
                entries.append([mw, draw(st.sampled_from([1, 2, 5]))])
                mws.append(parts)
        for parts in mws:
            for i in range(1, len(parts)):
                extra += [''.join(parts[i:]) + tail, ''.join(parts[:i]) + tail, draw(st.sampled_from(words)) + ''.join(parts[i:]) + tail,
                          ''.join(x.capitalize() for x in parts[i:]) + tail]
            extra += [''.join(parts) + tail, ''.join(reversed(parts)) + tail, ''.join(x.capitalize() for x in parts) + tail]
    return {'entries': entries, 'encoding': enc, 'coverage': draw(st.sampled_from([0.6, 0.3, 1])), 'ngram': draw(st.sampled_from([2, 3, 4])),
            'extra': [e for e in extra if valid_password(e)], 'drop_structs': drop, 'limit': draw(st.sampled_from([0, 0, 0, 1e-9, 1e-3, 0.05, 0.5]))}


def run_main(rec, seed, shard, nshards, tier):
    n = {'quick': 60, 'thorough': 1500}[tier]
    core.hyp_run(rec, prop, cases(), n, seed)


# ---------------------------------------------------------------- password_scorer.py (CLI) == library
_CLI = [None]


def prop_cli(case, rec):
    """password_scorer.py run as a subprocess must write exactly the tuples PCFGPasswordScorer.parse returns (tab separated)."""
    import subprocess
    import sys
    from .. import session
    from .c19 import valid_password, encodable
    if _CLI[0] is None or not os.path.isdir(_CLI[0]):
        _CLI[0] = session.copy_cli(session.make_root('c13cli'))
    root = _CLI[0]
    enc = 'utf-8'
    pws = []
    for p, c in case['entries']:
        pws += [p] * c
    path = os.path.join(_dir(), 'train.txt')
    trainer.write_training_file(path, pws, enc)
    from .. import cli
    ctx = case.get('context') or cli.DEFAULT
    rule = ctx.get('rule', 'T')
    out = os.path.join(root, 'Rules', rule)
    r = guard(case, trainer.train, path, out, encoding=enc, coverage=case['coverage'], ngram=case['ngram'], alphabet_size=100)
    if not r.ok:
        trainer.skip_or_alarm(rec, r, case, case['entries'], 100)
        return
    sc = build_scorer(out, case)
    cands = [c for c in dict.fromkeys(list(dict.fromkeys(pws)) + [x for s_ in list(dict.fromkeys(pws))[:6] for x in perturb(s_)] + case.get('extra', []) +
                                      pwgen.EMAILISH[:3] + pwgen.WEBISH[:3]) if valid_password(c) and encodable(c, enc) and not c.endswith('\r')]
    inp = os.path.join(_dir(), 'score_in.txt')
    trainer.write_training_file(inp, cands, enc)
    outp = os.path.join(_dir(), 'score_out.txt')
    if os.path.exists(outp):
        os.remove(outp)
    try:
        # started from the tool's folder, from somewhere else, or from a folder that holds ANOTHER ruleset under the same name
        opts = ['--rule', rule, '--input', inp, '--output', outp] if case.get('long_options') else ['-r', rule, '-i', inp, '-o', outp]
        if case.get('limit'):
            opts += ['--limit' if case.get('long_options') else '-l', repr(case['limit'])]
        p = cli.run(root, 'password_scorer.py', opts, ctx, timeout=600, text=True)
    except subprocess.TimeoutExpired:
        rec.skip('cli_timeout_inconclusive')
        return
    if not os.path.exists(outp):
        raise Violation('cli_no_output', f'password_scorer.py wrote no output file; rc={p.returncode}; tail: {(p.stdout + p.stderr)[-400:]}', case)
    got = open(outp, encoding=enc).read().split('\n')
    if got and got[-1] == '':
        got.pop()
    want = ['\t'.join(str(x) for x in guard(case, sc.parse, c)) for c in cands]
    rec.case({'candidates': len(cands), 'sample': want[:3], 'context': ctx}, len(cands) >= 5, ['cli_scorer'] + cli.label(ctx), key=[case['entries'], case['coverage'], case['ngram'], 'cli', ctx])
    if got != want:
        k = next((i for i, (a, b) in enumerate(zip(got, want)) if a != b), min(len(got), len(want)))
        raise Violation('cli_differs_from_library', f'password_scorer.py output line {k}: {got[k:k + 2]} vs library {want[k:k + 2]} ({len(got)} vs {len(want)} lines)', case)


def run_cli(rec, seed, shard, nshards, tier):
    n = {'quick': 4, 'thorough': 40}[tier]
    from .. import cli
    strat = st.tuples(cases(), cli.contexts(), st.booleans()).map(lambda t: dict(t[0], context=t[1], long_options=t[2]))
    core.hyp_run(rec, prop_cli, strat, n, seed, shrink=(tier == 'thorough'))


F13_CASE = {'entries': [['Kpassword', 3], ['password1', 6], ['Monkey12', 5], ['iloveyou', 5], ['K', 2], ['\u01c6emal1', 3]], 'encoding': 'utf-8',
            'coverage': 0.6, 'ngram': 3, 'extra': ['\u212a', '\u212apassword', '\u03f4', 'Monkey12', '\u01c5emal1', '\u01c4emal1', '\u01c6emal1']}


def run_probe(rec, seed, shard, nshards, tier):
    prop(F13_CASE, rec)


PARTS = [
    Part('regression_f13', run_probe, prop, {'quick': 1, 'thorough': 1}),
    Part('score_is_a_promise', run_main, prop, {'quick': 8, 'thorough': 16}),
    Part('cli_scorer', run_cli, prop_cli, {'quick': 4, 'thorough': 8}),
]
