"""C05 - training segments every accepted password into a lossless, soundly typed tiling; parsing never raises;
the accumulated counters are exactly the tallies of the segments."""
import os

from hypothesis import strategies as st
from hypothesis.stateful import RuleBasedStateMachine, initialize, rule

from .. import core, pwgen, segoracle, trainer
from ..core import Part, Violation, guard

core.use_repo()

RULE = ("(1) structured passwords: concatenations of 1-5 fragments (vocabulary words in several capitalisations, multi-words, digit "
        "runs, years, random keyboard walks over both layouts, context strings and near-misses, e-mail/website look-alikes with "
        "every TLD, symbols, spaces, Cyrillic/Greek/Latin-1, Unicode digits, non-BMP, special code points incl. U+0130/U+2029) "
        "parsed by the real PCFGPasswordParser behind a real MultiWordDetector with a generated training history; (2) st.text() "
        "filtered by the repository's check_valid; (3) a Hypothesis RuleBasedStateMachine with rules train / pretrain / parse that "
        "mirrors the detector's counts in a dict model; (4, thorough) an atheris coverage-guided target with the same oracle. "
        "Oracle: validity predicates of pv/segoracle.py on the section list handed to base_structure_creation (tiling, no "
        "empty/untyped segment, label length, per-label soundness incl. the multi-word rule against the model counts) and "
        "counter deltas == tallies. Non-trivial = >=3 segments or >=2 label categories; distinct = hash of (history, password). Scale part large_history: a detector trained with 70 000 / 250 000 distinct words (330 000+ trie nodes); every count must be the tally of the history and a sample of words seen threshold times is parsed.")
ASSUMPTIONS = ["'digit' and 'letter' are Python's str.isdigit / str.isalpha (the notion the code base uses)",
               "the password passed the repository's input filter check_valid()",
               "e-mail / website segments are only required to be non-empty, typed and part of the tiling"]


def check_valid(pw):
    from lib_trainer.trainer_file_input import check_valid as cv
    return cv(pw)


def check_one(case, mw_real, parser, mw_model, pw, rec, extra_cls=()):
    before = segoracle.parser_counters(parser)
    try:
        sections = trainer.parse_recording(parser, pw)
    except Exception as e:
        if core.crashed_in_repo(e):
            import traceback
            raise Violation('crash:' + type(e).__name__, f'parse({pw!r}) raised: {traceback.format_exc()[-700:]}', case)
        raise
    after = segoracle.parser_counters(parser)
    res = segoracle.check_sections(pw, sections, mw_model)
    labels = [l for _, l in (sections or [])]
    cats = {l[0] for l in labels if l}
    cls = list(extra_cls) + ['label_' + c for c in sorted(cats)]
    if any(ord(ch) > 127 for ch in pw):
        cls.append('non_ascii')
    if sum(1 for i in range(len(labels) - 1) if labels[i][0] == 'A' and labels[i + 1][0] == 'A'):
        cls.append('multiword_split')
    rec.case({'password': pw, 'sections': sections}, len(labels) >= 3 or len(cats) >= 2, cls, key=[case.get('history'), pw])
    if res:
        raise Violation(res[0], f'password {pw!r} -> {sections}: {res[1]}', case)
    want = segoracle.tallies(sections)
    for name in want:
        delta = after[name] - before[name]
        if name in ('alpha', 'emails'):
            # Greek final sigma: whole-string and per-character lower-casing differ ('ς' vs 'σ'); both spell the same word
            def norm(c):
                out = type(c)()
                for k, v in c.items():
                    if isinstance(k, tuple):
                        out[(k[0], k[1].replace('\u03c2', '\u03c3'))] += v
                    else:
                        out[k.replace('\u03c2', '\u03c3')] += v
                return out
            delta, want = norm(delta), dict(want, **{name: norm(want[name])})
        if delta != want[name] or (before[name] - after[name]):
            raise Violation('counters', f'password {pw!r} -> {sections}: counter {name} changed by {dict(delta)}, the segments imply {dict(want[name])}', case)


def build(case):
    mw_real, parser = trainer.new_parser()
    model = segoracle.MWModel()
    for w in case.get('pretrain', []):
        mw_real.train(w, set_threshold=True)
        model.train(w, set_threshold=True)
    for w, n in case.get('history', []):
        for _ in range(n):
            mw_real.train(w)
            model.train(w)
    return mw_real, parser, model


def prop(case, rec):
    mw_real, parser, model = build(case)
    for pw in case['passwords']:
        if not check_valid(pw):
            rec.skip('rejected_by_input_filter')
            continue
        sub = dict(case, passwords=[pw])
        check_one(sub, mw_real, parser, model, pw, rec)


@st.composite
def histories(draw):
    n = draw(st.integers(0, 8))
    hist = []
    for _ in range(n):
        w = draw(st.one_of(st.sampled_from(pwgen.WORDS[:11]), pwgen.password(max_frags=2)))
        hist.append([w, draw(st.sampled_from([1, 2, 4, 5, 5, 6, 9]))])
    pre = draw(st.lists(st.sampled_from(pwgen.WORDS[:9]), max_size=2))
    return hist, pre


@st.composite
def cases(draw, specials):
    hist, pre = draw(histories())
    pws = draw(st.lists(pwgen.password(specials=specials), min_size=1, max_size=6))
    if draw(st.integers(0, 2)) == 0:
        # a long multi-word followed by its tails: the detector sees the same sub-problems again (shared state between parses)
        ws = draw(st.lists(st.sampled_from(pwgen.WORDS[:9]), min_size=3, max_size=4))
        hist = hist + [[w, draw(st.sampled_from([5, 6]))] for w in set(ws)]
        chain = [''.join(ws[i:]) for i in range(len(ws) - 1)]
        if draw(st.booleans()):
            chain = [c.capitalize() for c in chain]
        pws = pws + chain + [draw(st.sampled_from(['1', '!', ''])) + c for c in chain[1:]]
    return {'history': hist, 'pretrain': pre, 'passwords': pws}


# ---------------------------------------------------------------- the same through run_trainer (three passes, both list spellings)
_TDIR = None


def prop_trained(case, rec):
    """The whole trainer on a generated list, written expanded or in --prefixcount spelling: pass 1 has to train the multi-word
    detector with every OCCURRENCE, pass 2 has to segment every occurrence soundly against those counts."""
    global _TDIR
    import os
    if _TDIR is None or not os.path.isdir(_TDIR):
        _TDIR = core.scratch_dir('c05t')
    entries = [[p, c] for p, c in case['entries'] if check_valid(p)]
    if not entries:
        rec.skip('no_valid_password')
        return
    path = os.path.join(_TDIR, 'train.txt')
    prefix = case['spelling'] != 'plain'
    if prefix:
        trainer.write_counted_file(path, entries, 'utf-8', pad={'prefix': 0, 'prefix_padded': 7}[case['spelling']])
    else:
        trainer.write_training_file(path, [p for p, c in entries for _ in range(c)], 'utf-8')
    words = [w for w in case.get('pretrain_words') or [] if check_valid(w)]
    mw_path = False
    if words:
        # trainer.py -m WORDLIST: every word of the list counts as seen threshold times before the training set is read
        mw_path = os.path.join(_TDIR, 'words.txt')
        trainer.write_training_file(mw_path, words, 'utf-8')
        rec.cls('trained_with_multiword_list')
    r = guard(case, trainer.train, path, os.path.join(_TDIR, 'R'), encoding='utf-8', prefixcount=prefix, coverage=case['coverage'], multiword=mw_path)
    if not r.ok:
        if r.error is not None and not isinstance(r.error, ZeroDivisionError):
            raise Violation('crash:' + type(r.error).__name__, f'run_trainer raised {r.error!r}', case)
        rec.skip('trainer_did_not_complete')
        return
    expanded = [p for p, c in entries for _ in range(c)]
    model = segoracle.MWModel()
    for w in words:
        model.train(w, set_threshold=True)
    for p in expanded:
        model.train(p)
    got = [pw for pw, _ in r.sections]
    if got != expanded:
        k = next((i for i, (a, b) in enumerate(zip(got, expanded)) if a != b), min(len(got), len(expanded)))
        raise Violation('pass2_sequence', f'the second pass parsed {len(got)} passwords, the list holds {len(expanded)} occurrences; first difference at #{k}: '
                        f'{got[k:k + 2]} vs {expanded[k:k + 2]} (spelling {case["spelling"]})', case)
    seen = set()
    for pw, sections in r.sections:
        if pw in seen:
            continue
        seen.add(pw)
        res = segoracle.check_sections(pw, [tuple(x) for x in sections], model)
        labels = [l for _, l in sections]
        multi = any(labels[i][0] == 'A' and labels[i + 1][0] == 'A' for i in range(len(labels) - 1))
        rec.case({'password': pw, 'sections': sections, 'spelling': case['spelling']}, len(labels) >= 3 or multi,
                 ['trained_' + case['spelling']] + (['trained_multiword_split'] if multi else []), key=[case['entries'], case['spelling'], pw])
        if res:
            raise Violation(res[0], f'run_trainer ({case["spelling"]} list): password {pw!r} -> {sections}: {res[1]}', dict(case))


@st.composite
def trained_cases(draw):
    n = draw(st.integers(1, 8))
    entries = []
    for _ in range(n):
        entries.append([draw(pwgen.password(max_frags=3)), draw(st.sampled_from([1, 1, 2, 4, 5, 6, 9, 12]))])
    ws = draw(st.lists(st.sampled_from(pwgen.WORDS[:9]), min_size=2, max_size=3))
    # words seen on several lines / with large counts, compounds of them with small and large counts
    for w in set(ws):
        entries.append([w + draw(st.sampled_from(['', '1', '!'])), draw(st.sampled_from([1, 3, 5, 7]))])
        entries.append([w, draw(st.sampled_from([1, 4, 5, 9]))])
        if draw(st.booleans()):
            # the word on many LINES (each once): lines and occurrences must not be confused
            for extra in draw(st.lists(st.sampled_from(['1', '2', '!', '12', '#', '99', '?', '0']), min_size=4, max_size=6, unique=True)):
                entries.append([w + extra, 1])
    entries.append([''.join(ws) + draw(st.sampled_from(['', '7'])), draw(st.sampled_from([1, 4, 5, 9]))])
    entries.append([''.join(ws[1:]) if len(ws) > 2 else ws[0] + ws[0], draw(st.sampled_from([1, 5, 6]))])
    seen, out = set(), []
    for p, c in entries:
        if p not in seen and len(p) <= 30:
            seen.add(p)
            out.append([p, c])
    pre = []
    if draw(st.integers(0, 2)) == 0:
        # a -m word list that overlaps the training set: compounds and parts, some of them also in the list a few times
        pre = draw(st.lists(st.sampled_from([''.join(ws), ''.join(ws[:2]), ws[0], ws[-1], 'blackbird', 'sunshine']), min_size=1, max_size=3, unique=True))
    return {'entries': out, 'spelling': draw(st.sampled_from(['plain', 'prefix', 'prefix', 'prefix_padded'])), 'coverage': draw(st.sampled_from([0.6, 1])),
            'pretrain_words': pre}


def run_trained(rec, seed, shard, nshards, tier):
    n = {'quick': 40, 'thorough': 800}[tier]
    core.hyp_run(rec, prop_trained, trained_cases(), n, seed)


SPECIALS = ('U0130', 'case_odd', 'U2029', 'nbsp_etc')


def run_structured(rec, seed, shard, nshards, tier):
    n = {'quick': 400, 'thorough': 12000}[tier]
    core.hyp_run(rec, prop, cases(SPECIALS), n, seed)


@st.composite
def text_cases(draw):
    hist, pre = draw(histories())
    pws = draw(st.lists(st.text(min_size=1, max_size=24).filter(lambda s: '\x00' not in s), min_size=1, max_size=6))
    return {'history': hist, 'pretrain': pre, 'passwords': pws}


def run_text(rec, seed, shard, nshards, tier):
    n = {'quick': 300, 'thorough': 12000}[tier]
    core.hyp_run(rec, prop, text_cases(), n, seed)


# ---------------------------------------------------------------- histories (stateful)
def make_machine(rec):
    class DetectorHistory(RuleBasedStateMachine):
        def __init__(self):
            super().__init__()
            self.mw_real, self.parser = trainer.new_parser()
            self.model = segoracle.MWModel()
            self.ops = []

        def case(self):
            return {'ops': self.ops}

        @rule(w=st.one_of(st.sampled_from(pwgen.WORDS), pwgen.password(max_frags=3)), n=st.sampled_from([1, 1, 2, 4, 5, 6]))
        def train(self, w, n):
            self.ops.append(['train', w, n])
            for _ in range(n):
                guard(self.case(), self.mw_real.train, w)
                self.model.train(w)
            self.agree()

        @rule(w=st.sampled_from(pwgen.WORDS))
        def pretrain(self, w):
            self.ops.append(['pretrain', w])
            guard(self.case(), self.mw_real.train, w, True)
            self.model.train(w, set_threshold=True)
            self.agree()

        @rule(pw=pwgen.password(specials=SPECIALS))
        def parse(self, pw):
            if not check_valid(pw):
                return
            self.ops.append(['parse', pw])
            check_one(self.case(), self.mw_real, self.parser, self.model, pw, rec, extra_cls=['history_parse'])

        def agree(self):
            for k, v in self.model.counts.items():
                got = self.mw_real._get_count(k)
                if got != v:
                    raise Violation('detector_count', f'after {self.ops[-4:]}: the detector counts {k!r} {got} time(s), the training history implies {v}', self.case())

    return DetectorHistory


def replay_ops(case, rec):
    if 'ops' not in case:
        return prop(case, rec)
    mw_real, parser = trainer.new_parser()
    model = segoracle.MWModel()
    for op in case['ops']:
        if op[0] == 'train':
            for _ in range(op[2]):
                mw_real.train(op[1])
                model.train(op[1])
        elif op[0] == 'pretrain':
            mw_real.train(op[1], True)
            model.train(op[1], set_threshold=True)
        else:
            check_one(case, mw_real, parser, model, op[1], rec)
        for k, v in model.counts.items():
            if mw_real._get_count(k) != v:
                raise Violation('detector_count', f'the detector counts {k!r} {mw_real._get_count(k)} time(s), the history implies {v}', case)


# ---------------------------------------------------------------- scale: a training history of several hundred thousand words
def run_large_history(rec, seed, shard, nshards, tier):
    prop_large_history({'large_history': {'quick': 70000, 'thorough': 250000}[tier]}, rec)


def prop_large_history(case, rec):
    """A multi-word detector trained like on a real leak: `n` distinct words (each seen 1-6 times, some glued from two others), several
    hundred thousand trie nodes. Every count of the detector must be the tally of the history, and words seen `threshold` times
    are not split."""
    from .c03 import word
    n = case['large_history']
    mw_real, parser = trainer.new_parser()
    model = segoracle.MWModel()
    words = [word(i * 7919 + 11, 5 + i % 6) for i in range(n)]
    for i, w in enumerate(words):
        if i % 9 == 0 and i >= 2:
            w = words[i - 1][:6] + words[i - 2][:6]          # a glued word of up to 12 letters
        for _ in range(1 + (i * 31) % 6):
            guard(case, mw_real.train, w)
            model.train(w)
    bad = [(k, mw_real._get_count(k), v) for k, v in model.counts.items() if mw_real._get_count(k) != v]
    rec.case({'distinct_words': len(model.counts), 'train_calls': sum(model.counts.values())}, True, ['history_of_%d_words' % n], key=['large_history', n])
    if bad:
        k, got, v = bad[0]
        raise Violation('detector_count', f'after a history of {n} words: the detector counts {k!r} {got} time(s), the history implies {v} ({len(bad)} words differ)', case)
    # a sample of whole words seen exactly `threshold` times through the parser: one alpha segment each
    sample = [k for k, v in model.counts.items() if v == model.threshold][:3000]
    for k in sample:
        check_one(case, mw_real, parser, model, k + '1', rec, extra_cls=['large_history_parse'])


def run_machine(rec, seed, shard, nshards, tier):
    n = {'quick': 60, 'thorough': 1500}[tier]
    core.hyp_machine(rec, make_machine(rec), n, 20 if tier == 'quick' else 40, seed)


# ---------------------------------------------------------------- corpus of the unit tests' literals + hand-picked regressions
CORPUS = ['test1qaz2wsx', '1qaz', 'bob@hotmail.com123', 'passwordwww.rockyou.com123', 'password2019', '2019password1920', 'password#1',
          'i<3you', 'No.1', '123password@#$', 'PaSSword', 'iloveyou123', 'lovepassword', '19²³', 'İ@a.comX', 'aİb1', 'İstanbul2019',
          'a b', ' ', '  x  ', 'Пароль12', 'qwe123', '!@#$', '1q2w3e4r', 'zaq12wsx', 'ß', 'ẞ', 'http://www.a.org/x y', 'WWW.ROCK.COM',
          '#12', '#123', 'test.com.com', 'a@b.com@c.com', '€😀', 'abc def']


def run_corpus(rec, seed, shard, nshards, tier):
    case = {'history': [['password', 6], ['love', 6], ['iloveyou', 5], ['monkey', 5]], 'pretrain': ['test'], 'passwords': CORPUS}
    prop(case, rec)


def run_fuzz(rec, seed, shard, nshards, tier):
    """atheris (coverage-guided) with the oracle inside the target: shard 0 starts from an empty corpus, shard 1 from the unit
    tests' literals and the hand-picked corpus."""
    runs = {'quick': 0, 'thorough': 400000}[tier]
    if not runs:
        return
    corpus = [s.encode('utf-8') for s in CORPUS] if shard == 1 else None
    core.run_atheris(rec, 'c05', runs, seed, corpus=corpus, max_len=96,
                     dictionary=[b'@', b'.com', b'www.', b'http://', b'19', b'20', b'#1', b'<3', b'1qaz', b'pass', b'word', b'\xc4\xb0', b' '])


PARTS = [
    Part('large_history', run_large_history, prop_large_history, {'quick': 1, 'thorough': 1}),
    Part('atheris_fuzz', run_fuzz, replay_ops, {'quick': 0, 'thorough': 2}),
    Part('corpus', run_corpus, replay_ops, {'quick': 1, 'thorough': 1}),
    Part('structured', run_structured, replay_ops, {'quick': 8, 'thorough': 16}),
    Part('text', run_text, replay_ops, {'quick': 4, 'thorough': 16}),
    Part('detector_histories', run_machine, replay_ops, {'quick': 4, 'thorough': 16}),
    Part('through_run_trainer', run_trained, prop_trained, {'quick': 4, 'thorough': 16}),
]
