"""C02 - every pre-terminal of the grammar is emitted exactly once (none skipped, none repeated),
including under exact probability ties between the parents of a node and repeated variable types."""
import itertools
import os
from collections import Counter

from hypothesis import strategies as st

from .. import core, rsmodel, strategies as S
from ..core import Part, Violation, guard

RULE = ("(1) Hypothesis-generated synthetic rulesets x flag sets, real queue drained: emitted multiset of pre-terminals must "
        "equal the model's product set (multiplicity = number of copies of the base structure), and after every pop no "
        "pre-terminal may occur in emitted+heap more often than that multiplicity; small cases are also expanded and the "
        "Counter of guesses compared with the model language. (2) exhaustive small-scope sweep of single-structure grids "
        "(1-3 variables, 1-3 groups each, probabilities from small pools chosen to create every tie pattern, repeated types). "
        "Non-trivial = some node has >=2 parents with exactly equal float probability; distinct = hash of the model. Scale part large_queue (shared with C01): 59 049 base structures, no repeats and the i-th largest probability at position i.")
ASSUMPTIONS = ["ruleset lists are sorted by non-increasing probability with strictly decreasing groups (loader regroups them identically)",
               "the heap is observed through PcfgQueue.p_queue (intermediate states); if that attribute disappears the frontier invariant is skipped and counted"]

_DIR = None


def _dir():
    global _DIR
    if _DIR is None or not os.path.isdir(_DIR):
        _DIR = core.scratch_dir('c02')
    return _DIR


def tie_nodes(vs, base):
    """Number of nodes with >=2 parents of exactly equal float probability (harness-side arithmetic)."""
    n = 0
    for toks, bp, _ in base:
        if len(toks) < 2:
            continue
        for idx in itertools.product(*[range(len(vs[t])) for t in toks]):
            pp = []
            for pos, i in enumerate(idx):
                if i == 0:
                    continue
                par = list(idx)
                par[pos] -= 1
                pp.append(rsmodel.float_prob(vs, bp, list(zip(toks, par))))
            if len(pp) >= 2 and len(set(pp)) < len(pp):
                n += 1
    return n


def run_and_check(case, rec, expand_limit=400):
    from .. import guesser
    m, flags = case['model'], case['flags']
    vs, base = rsmodel.effective(m, flags['skip_brute'], flags['skip_case'], flags['folder'])
    if not base:
        rec.skip('no_base_structure_under_flags')
        return None
    expected = Counter(pt for _, pt in rsmodel.preterminals(vs, base))
    mult = Counter(tuple(toks) for toks, _, _ in base)
    rdir = os.path.join(_dir(), 'R')
    rsmodel.write_ruleset(rdir, m)
    g = guard(case, guesser.load, rdir, skip_brute=flags['skip_brute'], skip_case=flags['skip_case'],
              base_structure_folder=flags['folder'])
    emitted = Counter()
    state = {'frontier_checked': 0}

    def on_pop(q, out):
        pt = out[-1][0]
        emitted[pt] += 1
        heap = getattr(q, 'p_queue', None)
        if heap is None:
            return
        state['frontier_checked'] += 1
        seen = Counter()
        for qi in heap:
            it = getattr(qi, 'pt_item', None)
            if it is None:
                return
            seen[tuple((a, b) for a, b in it['pt'])] += 1
        for p, c in seen.items():
            lim = mult[tuple(t for t, _ in p)]
            if c + emitted[p] > lim:
                raise Violation('frontier_duplicate',
                                f'after pop #{len(out)} pre-terminal {p} occurs {c} time(s) in the heap and {emitted[p]} time(s) '
                                f'among the emitted ones (allowed: {lim})', case)

    res = guard(case, guesser.run_queue, g, None, False, None, on_pop)
    got = Counter(r[0] for r in res)
    nties = tie_nodes(vs, base) if sum(expected.values()) <= 4000 else 0
    cls = S.describe(m)
    if nties:
        cls.append('tied_parents')
    if not state['frontier_checked']:
        rec.skip('frontier_invariant_unobservable')
    rec.case(case, nties > 0, cls)
    if got != expected:
        missing = list((expected - got).items())[:5]
        extra = list((got - expected).items())[:5]
        raise Violation('preterminal_multiset', f'missing {missing} / repeated-or-unknown {extra} '
                        f'(expected {sum(expected.values())}, emitted {sum(got.values())})', case)
    # guesses: multiset equals the model language, one per derivation (small, non-Markov-free cases only)
    total = sum(rsmodel.expansion_size(vs, pt) * c for pt, c in expected.items() if pt[0][0] != 'M')
    if total <= expand_limit:
        want = Counter()
        have = Counter()
        for pt, c in expected.items():
            if pt[0][0] == 'M':
                continue
            for s in rsmodel.expand(vs, pt):
                want[s] += c
        for r in res:
            if r[0][0][0] == 'M':
                continue
            lines, cnt = guard(case, guesser.capture_guesses, g, [tuple(x) for x in r[0]])
            have.update(lines)
        rec.cls('language_compared')
        if want != have:
            raise Violation('guess_multiset', f'missing {list((want - have).items())[:5]} extra {list((have - want).items())[:5]}', case)
    return res


def prop(case, rec):
    run_and_check(case, rec)


@st.composite
def cases(draw, max_pt):
    from .c01 import FLAGSETS
    flags = draw(st.sampled_from(FLAGSETS[:4] * 2 + FLAGSETS[4:]))
    fams = ['dyadic', 'dyadic', 'dyadic', 'tenths', 'count', 'tiny', 'mixed']
    m = draw(S.rulesets(max_pt=max_pt, prince=flags['folder'] == 'Prince', families=fams))
    return {'model': m, 'flags': flags}


@st.composite
def long_cases(draw):
    """One base structure with 10-12 transitions (a password like 1!1!1!1!1! or five words) over variables of two groups each,
    next to a short one: parse trees this long take other code paths than the two- or three-segment ones."""
    from .c01 import FLAGSETS
    fam = draw(st.sampled_from(['count', 'tenths', 'dyadic']))
    kinds = draw(st.sampled_from([['D1', 'O1'], ['D1'], ['A1'], ['A1', 'D1'], ['D1', 'O1', 'Y1']]))
    vars_ = {}
    for nm in kinds:
        ps = draw(S.prob_list(fam, 2))
        vals = draw(S.values_for(nm, 2))
        vars_[nm] = [[ps[0], [vals[0]]], [ps[1], [vals[1]]]]
        if nm[0] == 'A':
            cps = draw(S.prob_list(fam, 2))
            vars_['C' + nm[1:]] = [[cps[0], ['L']], [cps[1], ['U']]]
    per_tok = {nm: (2 if nm[0] == 'A' else 1) for nm in kinds}
    toks, n_tr = [], 0
    target = draw(st.integers(10, 11))
    i = 0
    while n_tr < target:
        nm = kinds[i % len(kinds)]
        toks.append(nm)
        n_tr += per_tok[nm]
        i += 1
    base = sorted([[''.join(toks), draw(st.sampled_from([0.5, 0.6, 0.3]))], [kinds[0], 0.4]], key=lambda x: -x[1])
    m = {'encoding': 'utf-8', 'uuid': 'c02-long', 'vars': vars_, 'base': base, 'm_levels': []}
    return {'model': m, 'flags': dict(FLAGSETS[0])}


def run_long(rec, seed, shard, nshards, tier):
    n = {'quick': 3, 'thorough': 40}[tier]
    core.hyp_run(rec, prop, long_cases(), n, seed, shrink=False)


def run_random(rec, seed, shard, nshards, tier):
    n = {'quick': 250, 'thorough': 5000}[tier]
    core.hyp_run(rec, prop, cases(400 if tier == 'quick' else 2500), n, seed)


# ---------------------------------------------------------------- exhaustive small-scope grids
POOLS = {
    'quick': [[0.5, 0.25, 0.125]],
    'thorough': [[0.5, 0.25, 0.125, 0.0625], [0.6, 0.3, 0.2, 0.1], [1e-160, 1e-161, 1e-162], [0.9, 0.3, 0.1]],
}
SHAPES = [('D1',), ('D1', 'O1'), ('D1', 'D1'), ('D1', 'O1', 'K4'), ('D1', 'D1', 'O1'), ('D1', 'O1', 'D1'), ('O1', 'D1', 'D1'),
          ('D1', 'D1', 'D1')]
VALS = {'D1': ['1', '2', '3'], 'O1': ['!', '?', '#'], 'K4': ['q1w2', 'a1s2', 'z1x2']}


def grid_cases(tier):
    for pool in POOLS[tier]:
        choices = [list(c) for k in (1, 2, 3) for c in itertools.combinations(pool, k)]
        for shape in SHAPES:
            names = sorted(set(shape))
            for assign in itertools.product(choices, repeat=len(names)):
                vars_ = {nm: [[p, [VALS[nm][i]]] for i, p in enumerate(ps)] for nm, ps in zip(names, assign)}
                for bp, dup in ((1.0, False), (0.5, True)):
                    base = [[''.join(shape), bp]] + ([[''.join(shape), bp]] if dup else [])
                    yield {'model': {'encoding': 'utf-8', 'uuid': 'g', 'vars': vars_, 'base': base, 'm_levels': []},
                           'flags': {'skip_brute': False, 'skip_case': False, 'folder': 'Grammar'}}


def run_grids(rec, seed, shard, nshards, tier):
    for i, case in enumerate(grid_cases(tier)):
        if i % nshards != shard:
            continue
        run_and_check(case, rec, expand_limit=0)
    rec.exhaustive = True


# scale: 59 049 base structures, so that the queue holds more than 50 000 entries from the start; the i-th emitted pre-terminal must
# have the i-th largest probability of the ruleset and may not have been emitted before (shared with C01)
from .c01 import prop_large_queue, run_large_queue  # noqa: E402


PARTS = [
    Part('large_queue', run_large_queue, prop_large_queue, {'quick': 1, 'thorough': 1}),
    Part('random_rulesets', run_random, prop, {'quick': 8, 'thorough': 16}),
    Part('exhaustive_grids', run_grids, prop, {'quick': 8, 'thorough': 16}),
    Part('long_structures', run_long, prop, {'quick': 3, 'thorough': 8}),
]
