"""C12 - the guess stream does not depend on thread timing or on standard input; only an explicit quit stops it,
at a pre-terminal boundary or between two Markov guesses, after the state has been saved."""
import os
import pty
import subprocess
import sys

from hypothesis import strategies as st

from .. import core, rsmodel, session, histories, strategies as S
from ..core import Part, Violation, guard

RULE = ("(Part huge_preterminal: requests 1 / 999..1001 / 4096 / 65535..65537 / 99999..100001 / 131072 / n-1 / n guesses into ONE pre-terminal of 10 100-160 000 guesses, then resume; same oracle. The status report's clock is real or harness-owned with steps of 45 s / 3700 s / 100000 s.) (1) Harness-owned schedules: the real keypress() runs in a real thread; its input() blocks on a harness queue, so the "
        "harness decides at which loop position (before/after the i-th pop, after the j-th written guess, inside a Markov level, "
        "inside a Markov remainder restored from a save file) a status request '', help 'h', quit 'q' (each also in an interleaved form in which the keyboard thread, traced with sys.settrace, executes only 1-12 lines of repository code per loop position, so that the generation loop runs between any two lines of the status code), EOFError, RuntimeError "
        "(lost sys.stdin), OSError, ValueError or a failing status print arrives, and waits until the thread is blocked again or "
        "has ended. Hypothesis generates histories of 1-3 runs (fresh, --load, --load) with 0-5 events each. Oracle: "
        "pv/histories.py (nothing but an explicit 'q' shortens/reorders/alters the stream; 'q' stops at a boundary with state "
        "saved; resume completes the stream; status/help never end the keyboard thread). (2) Real processes: pcfg_guesser.py in a "
        "scratch copy with stdin = /dev/null, closed, pipe at EOF, pipe with newlines then EOF, pipe with newlines kept open, pty; "
        "repeated; stdout must be the full stream. Non-trivial = a schedule with a thread-terminating non-quit event, a 'q' "
        "inside a Markov level, or an event during a restored remainder; distinct = hash of (model, schedules).")
ASSUMPTIONS = ["interleavings are enumerated at the granularity the code can observe (events are delivered at loop positions and the "
               "thread is allowed to settle); genuinely pre-emptive races are only sampled by the real-process part",
               "no liveness claim", "exit status / stderr of real processes are recorded, not judged"]

_ROOT = None


def _root():
    global _ROOT
    if _ROOT is None or not os.path.isdir(_ROOT):
        _ROOT = session.make_root('c12')
    return _ROOT


EVENTS = ['', 'h', 'q', {'raise': 'EOFError'}, {'raise': 'RuntimeError'}, {'raise': 'OSError'}, {'raise': 'ValueError'},
          {'status_error': 1},
          # the same requests, but the keyboard thread works on them N lines at a time in step with the generation loop
          {'interleaved': '', 'lines': 1}, {'interleaved': '', 'lines': 2}, {'interleaved': '', 'lines': 5}, {'interleaved': 'h', 'lines': 3},
          {'interleaved': 'q', 'lines': 1}, {'interleaved': 'q', 'lines': 4}, {'interleaved': '', 'lines': 12}]


@st.composite
def schedule(draw, max_events=5):
    n = draw(st.integers(0, max_events))
    evs = []
    used = set()
    for _ in range(n):
        kind = draw(st.sampled_from(['before_pop', 'after_pop', 'guess', 'guess', 'markov_guess', 'markov_next', 'omen_next', 'remainder_guess', 'before_expand', 'before_expand']))
        idx = draw(st.integers(1, 10 if kind not in ('guess',) else 30))
        if (kind, idx) in used:
            continue
        used.add((kind, idx))
        if kind == 'before_expand':
            # a status / help request served when the pre-terminal is already the report's current one but not expanded yet (the
            # report reads the grammar nodes the generator is about to use); quits are delivered at the other positions
            evs.append([[kind, idx], draw(st.sampled_from(['', '', 'h', {'interleaved': '', 'lines': 1}, {'interleaved': '', 'lines': 5}, {'interleaved': 'h', 'lines': 3}]))])
            continue
        evs.append([[kind, idx], draw(st.sampled_from(EVENTS + ['', 'q']))])
    return evs


@st.composite
def remainder_schedule(draw):
    """Events while a restored Markov remainder is being generated (positions are resolved per run)."""
    n = draw(st.integers(1, 4))
    evs = []
    for _ in range(n):
        evs.append([[draw(st.sampled_from(['remainder_guess', 'remainder_guess', 'omen_next'])), draw(st.integers(1, 6))], draw(st.sampled_from(EVENTS + ['', 'h', 'q']))])
    return evs


@st.composite
def cases(draw):
    shape = draw(st.sampled_from(['single', 'markov_resume', 'markov_resume', 'markov_resume', 'quit_resume', 'three_runs']))
    mk = 'yes' if shape == 'markov_resume' else draw(st.sampled_from(['yes', 'yes', 'no']))
    m = draw(S.rulesets(max_pt=12, markov=mk, max_structs=3, families=['count', 'float', 'tenths', 'dyadic'], rich_levels=True))
    if shape == 'single':
        scheds = [draw(schedule())]
    elif shape == 'markov_resume':
        scheds = [[[[draw(st.sampled_from(['markov_guess', 'markov_guess', 'markov_next'])), draw(st.integers(1, 8))], 'q']], draw(remainder_schedule()) + draw(schedule(2)), draw(schedule(2))]
    elif shape == 'quit_resume':
        scheds = [[[[draw(st.sampled_from(['guess', 'before_pop', 'after_pop'])), draw(st.integers(1, 12))], 'q']], draw(schedule()), draw(schedule(2))]
    else:
        scheds = [draw(schedule()) for _ in range(3)]
    # the status report's clock: real, or owned by the harness so that minutes / hours / days of guessing time are reported
    clock = draw(st.sampled_from([None, None, 0.0, 45.0, 3700.0, 100000.0]))
    case = {'model': m, 'schedules': scheds, 'clock_step': clock, 'stdin_isatty': draw(st.sampled_from([None, True, True, False]))}
    if draw(st.integers(0, 2)) == 0:
        case['sessions'] = draw(st.sampled_from(histories.SESSION_PAIRS))
        case['neighbour_quits'] = [draw(st.integers(0, 12)) for _ in range(2)]
    return case


def prop(case, rec):
    m = case['model']
    root = _root()
    rsmodel.write_ruleset(os.path.join(root, 'Rules', 'T'), m)
    u = guard(case, session.run_main, root, ['-r', 'T', '-s', 'u'])
    if not u.lines:
        rec.skip('empty_language')
        return
    if len(u.lines) > case.get('max_stream', 150):
        rec.skip('stream_too_long')
        return
    sm = histories.run_history(case, root, u, case['schedules'])
    cls = ['exact_oracle' if sm['distinct'] else 'tied_oracle']
    if sm['thread_ended_by_stdin']:
        cls.append('stdin_error_event')
    if sm['quits_inside_markov']:
        cls.append('quit_inside_markov')
    if sm['events_in_remainder']:
        cls.append('event_in_restored_remainder')
    if sm['status_requests']:
        cls.append('status_or_help')
    if sm['quits']:
        cls.append('explicit_quit')
    if sm.get('status_before_expansion'):
        cls.append('status_before_first_use_of_the_current_preterminal')
    if sm.get('interleaved_events'):
        cls.append('interleaved_request')
    if sm.get('neighbour_runs'):
        cls.append('neighbour_session_between_runs')
    if case.get('clock_step') and sm['status_requests']:
        cls.append('status_with_minutes_hours_days_elapsed')
    nontriv = bool(sm['thread_ended_by_stdin'] or sm['quits_inside_markov'] or sm['events_in_remainder'] or sm.get('interleaved_events'))
    if case.get('huge'):
        cls.append('request_inside_preterminal_of_%d_guesses' % case['huge'])
        nontriv = True
    rec.case({'schedules': case['schedules'], 'runs': sm['runs'], 'U': len(u.lines)}, nontriv, cls, key=case)


@st.composite
def huge_cases(draw, shapes):
    """Requests that arrive while ONE pre-terminal of 10 000 .. 160 000 guesses (two tied groups multiplied) is being written."""
    a, b = draw(st.sampled_from(shapes))
    o = ['!' + chr(0x4e00 + i) for i in range(a)]                 # O2: a values of equal probability
    d = [str(i).zfill(3) for i in range(b)]                       # D3: b values of equal probability
    vars_ = {'O2': [[0.1, ['??']], [0.9 / a, o]], 'D3': [[0.05, ['999']], [0.9 / b, d]], 'D1': [[0.6, ['1']], [0.4, ['2']]]}
    base = [['D1', 0.5], ['O2D3', 0.4], ['D1D1', 0.1]]
    m = {'encoding': 'utf-8', 'uuid': 'c12-huge', 'vars': vars_, 'base': base, 'm_levels': []}
    n = a * b
    start = 2 + 4 + 1 + b + a            # stream position at which the big pre-terminal (the least probable one) begins
    marks = [k for k in (1, 999, 1000, 1001, 4096, 9999, 10001, 65535, 65537, 99999, 100000, 100001, 131072, n - 1, n) if k <= n]
    pos = sorted({start + draw(st.sampled_from(marks)) + draw(st.sampled_from([0, 0, 1, 2])) for _ in range(draw(st.integers(1, 3)))})
    evs = [[['guess', k], draw(st.sampled_from(['', 'h', '']))] for k in pos[:-1]] + [[['guess', pos[-1]], 'q']]
    return {'model': m, 'schedules': [evs, draw(schedule(2)), []], 'clock_step': None, 'max_stream': 400000, 'huge': n}


def run_huge(rec, seed, shard, nshards, tier):
    n = {'quick': 4, 'thorough': 12}[tier]
    shapes = {'quick': [(330, 320), (101, 100)], 'thorough': [(101, 100), (260, 255), (330, 320), (400, 400)]}[tier]
    core.hyp_run(rec, prop, huge_cases(shapes), n, seed, shrink=False)


def run_sched(rec, seed, shard, nshards, tier):
    n = {'quick': 200, 'thorough': 4000}[tier]
    core.hyp_run(rec, prop, cases(), n, seed)


# regression: status request while a Markov remainder restored from a save file is being generated, then quit
F12B_CASE = {'model': {'encoding': 'utf-8', 'uuid': 'f12b', 'vars': {'D1': [[0.5, ['1']], [0.3, ['2']]]},
                       'base': [['D1', 0.5], ['M', 0.5]],
                       'omen': {'ngram': 2, 'alphabet': ['a', 'b'], 'ip': [[0, 'a'], [1, 'b']], 'ep': [[0, 'a'], [1, 'b']],
                                'cp': [[0, 'aa'], [1, 'ab'], [0, 'ba'], [1, 'bb']], 'ln': [10, 0, 1] + [10] * 18},
                       'm_levels': [[2, 0.2], [1, 0.05]], 'keyspace': [[1, 5], [2, 8]]},
             'schedules': [[[['guess', 3], 'q']], [[['guess', 1], ''], [['guess', 2], 'q']], []]}
F12_CASE = dict(F12B_CASE, schedules=[[[['before_pop', 2], {'raise': 'EOFError'}]]])


def run_regress(rec, seed, shard, nshards, tier):
    prop(F12_CASE, rec)
    prop(F12B_CASE, rec)


# ---------------------------------------------------------------- real processes, real stdin conditions
_CLI = None


def _cli_root():
    global _CLI
    if _CLI is None or not os.path.isdir(_CLI):
        _CLI = session.copy_cli(session.make_root('c12cli'))
    return _CLI


STDIN_MODES = ['devnull', 'closed', 'pipe_eof', 'pipe_newlines_eof', 'pipe_newlines_open', 'pty']


def run_real(root, args, mode, timeout=120):
    env = dict(os.environ, PYTHONUTF8='1', LC_ALL='C.UTF-8', PYTHONDONTWRITEBYTECODE='1', PYTHONWARNINGS='ignore')
    cmd = [sys.executable, os.path.join(root, 'pcfg_guesser.py')] + args
    kw = dict(stdout=subprocess.PIPE, stderr=subprocess.PIPE, env=env, cwd=root)
    master = slave = None
    if mode == 'devnull':
        p = subprocess.Popen(cmd, stdin=subprocess.DEVNULL, **kw)
    elif mode == 'closed':
        p = subprocess.Popen(cmd, preexec_fn=lambda: os.close(0), **kw)
    elif mode == 'pty':
        master, slave = pty.openpty()
        p = subprocess.Popen(cmd, stdin=slave, **kw)
    else:
        p = subprocess.Popen(cmd, stdin=subprocess.PIPE, **kw)
        try:
            if mode in ('pipe_newlines_eof', 'pipe_newlines_open'):
                p.stdin.write(b'\n\nh\n')
                p.stdin.flush()
            if mode in ('pipe_eof', 'pipe_newlines_eof'):
                p.stdin.close()
                p.stdin = None
        except BrokenPipeError:
            pass
    try:
        out, err = p.communicate(timeout=timeout) if mode in ('devnull', 'closed', 'pty', 'pipe_eof', 'pipe_newlines_eof') else (None, None)
        if out is None:
            out = p.stdout.read()
            err = p.stderr.read()
            p.wait(timeout=timeout)
    finally:
        if p.poll() is None:
            p.kill()
        for fd in (master, slave):
            if fd is not None:
                try:
                    os.close(fd)
                except OSError:
                    pass
        try:
            if p.stdin:
                p.stdin.close()
        except Exception:
            pass
    return out, err, p.returncode


def prop_real(case, rec):
    m, mode = case['model'], case['stdin']
    iroot = _root()
    rsmodel.write_ruleset(os.path.join(iroot, 'Rules', 'T'), m)
    u = guard(case, session.run_main, iroot, ['-r', 'T', '-s', 'u'])
    if len(u.pops) < 4:
        rec.skip('fewer_than_4_preterminals')
        return
    root = _cli_root()
    rsmodel.write_ruleset(os.path.join(root, 'Rules', 'T'), m)
    want = ''.join(l + '\n' for l in u.lines).encode('utf-8')
    for rep in range(case.get('repeats', 3)):
        try:
            out, err, rc = run_real(root, ['-r', 'T', '-s', 'r'], mode)
        except subprocess.TimeoutExpired:
            rec.skip('real_process_timeout_inconclusive')
            return
        rec.case({'stdin': mode, 'lines': len(u.lines), 'rc': rc}, True, ['real_' + mode], key=[m, mode, rep])
        if out != want:
            got = out.decode('utf-8', 'replace').split('\n')
            raise Violation('real_stdin', f'stdin={mode} (repeat {rep}): stdout has {len(got) - 1} lines, the full stream has {len(u.lines)}; rc={rc}; '
                            f'stderr tail: {err.decode("utf-8", "replace")[-300:]}', case)


@st.composite
def real_cases(draw):
    m = draw(S.rulesets(max_pt=40, markov=draw(st.sampled_from(['yes', 'no'])), max_structs=3,
                        families=['count', 'float', 'tenths'], rich_levels=True))
    return {'model': m, 'stdin': draw(st.sampled_from(STDIN_MODES)), 'repeats': 3}


def run_real_part(rec, seed, shard, nshards, tier):
    n = {'quick': 3, 'thorough': 40}[tier]
    core.hyp_run(rec, prop_real, real_cases(), n, seed, shrink=False)


PARTS = [
    Part('regressions', run_regress, prop, {'quick': 1, 'thorough': 1}),
    Part('schedules', run_sched, prop, {'quick': 8, 'thorough': 16}),
    Part('real_stdin', run_real_part, prop_real, {'quick': 6, 'thorough': 12}),
    Part('huge_preterminal', run_huge, prop, {'quick': 2, 'thorough': 8}),
]
