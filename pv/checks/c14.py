"""C14 - skip_brute and all_lower are pure restrictions of the default run (also through save/restore)."""
import os
from collections import Counter

from hypothesis import strategies as st

from .. import core, rsmodel, session, strategies as S
from ..core import Part, Violation, guard

RULE = ("Hypothesis-generated synthetic rulesets with the Markov structure first / in the middle / last / absent / alone, all four "
        "flag combinations. Oracle (metamorphic, against the default run D of the same real guesser): the skip_brute run must be "
        "D without its Markov pre-terminals, in the same order (compared modulo groups of probabilities equal to 1e-12 relative, i.e. mathematically tied products), "
        "with prob' = prob / (1 - P(Markov)) within 1e-12 relative - identical to D when there is no Markov structure; Markov "
        "alone + skip_brute must emit nothing. all_lower: the loaded grammar must be the model with every C<n> replaced by the "
        "single group {L^n: 1.0}, all other variables unchanged, and the guess language the model's all-lower language. Second "
        "part: a session started with flags, interrupted, and resumed with --load (with or without other flags on the command line) must continue under the saved flags. "
        "Non-trivial = ruleset without Markov, or Markov not in first position, or both flags on; distinct = hash of (model, flags). Part many_structures: base lists of 100-160 and of 1500 lines (~40 KB) with the Markov line at chosen positions.")
ASSUMPTIONS = ["well-formed rulesets; P(Markov) < 1 unless Markov is the only structure"]

_DIR = None
_ROOT = None


def _dir():
    global _DIR
    if _DIR is None or not os.path.isdir(_DIR):
        _DIR = core.scratch_dir('c14')
    return _DIR


def _root():
    global _ROOT
    if _ROOT is None or not os.path.isdir(_ROOT):
        _ROOT = session.make_root('c14s')
    return _ROOT


def run(case, rdir, sb, sc):
    from .. import guesser
    g = guesser.load(rdir, skip_brute=sb, skip_case=sc)
    return g, guesser.run_queue(g)


def prop(case, rec):
    from .. import guesser
    m = case['model']
    rdir = os.path.join(_dir(), 'R')
    rsmodel.write_ruleset(rdir, m)
    structs = [s for s, _ in m['base']]
    has_m = 'M' in structs
    only_m = structs == ['M']
    pm = next((float(p) for s, p in m['base'] if s == 'M'), 0.0)
    gD, D = guard(case, run, case, rdir, False, False)
    cls = S.describe(m) + (['no_markov'] if not has_m else []) + (['markov_only'] if only_m else [])
    nontriv = (not has_m) or structs[0] != 'M'
    rec.case(case, nontriv, cls)
    # ---- skip_brute
    try:
        gS, Sq = run(case, rdir, True, False)
        loaded = True
    except Exception as e:
        if core.crashed_in_repo(e) or type(e) is Exception:
            loaded = False
        else:
            raise
    if only_m:
        if loaded and Sq:
            raise Violation('markov_only_emits', f'ruleset with only the Markov structure + skip_brute emitted {len(Sq)} pre-terminals', case)
    else:
        if not loaded:
            raise Violation('skip_brute_load_failed', 'skip_brute refused to load a ruleset that has non-Markov structures', case)
        Dn = [r for r in D if r[0][0][0] != 'M']
        if Counter(r[0] for r in Sq) != Counter(r[0] for r in Dn):
            a, b = Counter(r[0] for r in Sq), Counter(r[0] for r in Dn)
            raise Violation('skip_brute_set', f'skip_brute run differs from the non-Markov part of the default run: missing {list((b - a).items())[:4]} '
                            f'extra {list((a - b).items())[:4]}', case)
        if any(r[0][0][0] == 'M' for r in Sq):
            raise Violation('skip_brute_markov', 'skip_brute run contains a Markov pre-terminal', case)
        scale = 1.0 / (1.0 - pm) if has_m else 1.0
        dprob = {}
        for r in Dn:
            dprob.setdefault(r[0], []).append(r[1])
        for pt, prob, *_ in Sq:
            cands = dprob[pt]
            if not any(abs(prob - d * scale) <= 1e-12 * max(prob, d * scale) + 1e-320 for d in cands):
                raise Violation('skip_brute_rescale', f'{pt}: prob {prob!r} under skip_brute, default {cands}, expected factor 1/(1-{pm!r})', case)
            if not has_m and prob not in cands:
                raise Violation('skip_brute_changes_prob', f'{pt}: no Markov structure in the ruleset but prob changed from {cands} to {prob!r}', case)
        # same order modulo exact ties of the rescaled probability
        i = 0
        while i < len(Sq):
            j = i
            # a group = chain of neighbours whose probabilities agree to 1e-12 relative: mathematically equal products can
            # differ in the last ulp, and the rescaled base probability may flip that difference
            while j < len(Sq) and (j == i or abs(Sq[j][1] - Sq[j - 1][1]) <= 1e-12 * Sq[j - 1][1]):
                j += 1
            if Counter(r[0] for r in Sq[i:j]) != Counter(r[0] for r in Dn[i:j]):
                raise Violation('skip_brute_order', f'positions {i}..{j - 1}: skip_brute emits {[r[0] for r in Sq[i:j]][:4]}, the default run has '
                                f'{[r[0] for r in Dn[i:j]][:4]} there', case)
            i = j
    # ---- all_lower (with and without skip_brute)
    for sb in (False, True):
        if sb and only_m:
            continue
        vsL, baseL = rsmodel.effective(m, sb, True)
        gL, Lq = guard(case, run, case, rdir, sb, True)
        for name, groups in vsL.items():
            if name == 'M':
                continue
            got = [(x['prob'], list(x['values'])) for x in gL.grammar.get(name, [])]
            if got != [(p, list(v)) for p, v in groups]:
                raise Violation('all_lower_grammar', f'all_lower (skip_brute={sb}): variable {name} loaded as {got[:3]}, expected {groups[:3]}', case)
        want = Counter(pt for _, pt in rsmodel.preterminals(vsL, baseL))
        if Counter(r[0] for r in Lq) != want:
            a = Counter(r[0] for r in Lq)
            raise Violation('all_lower_set', f'all_lower (skip_brute={sb}): pre-terminals differ from the model: missing {list((want - a).items())[:4]} '
                            f'extra {list((a - want).items())[:4]}', case)
        # probabilities: default probabilities with every mask factor replaced by 1.0
        bps = {}
        for toks, bp, s in baseL:
            bps.setdefault(tuple(toks), set()).add(bp)
        for pt, prob, *_ in Lq:
            ok = False
            for bp in bps[tuple(t for t, _ in pt)]:
                ex = float(rsmodel.exact_prob(vsL, bp, pt))
                if abs(prob - ex) <= 1e-12 * ex + 1e-320:
                    ok = True
            if not ok:
                raise Violation('all_lower_prob', f'all_lower (skip_brute={sb}): {pt} has prob {prob!r}', case)
        total = sum(rsmodel.expansion_size(vsL, pt) for pt in want if pt[0][0] != 'M')
        if total <= 600:
            wl, hl = Counter(), Counter()
            for pt, c in want.items():
                if pt[0][0] == 'M':
                    continue
                for s_ in rsmodel.expand(vsL, pt):
                    wl[s_] += c
            for r in Lq:
                if r[0][0][0] == 'M':
                    continue
                lines, _ = guard(case, guesser.capture_guesses, gL, [tuple(x) for x in r[0]])
                hl.update(lines)
            if wl != hl:
                raise Violation('all_lower_language', f'all_lower (skip_brute={sb}): guesses differ from the all-lower language: missing '
                                f'{list((wl - hl).items())[:4]} extra {list((hl - wl).items())[:4]}', case)
            rec.cls('all_lower_language_compared')


@st.composite
def cases(draw, max_pt):
    mk = draw(st.sampled_from(['no', 'yes', 'yes', 'only']))
    m = draw(S.rulesets(max_pt=max_pt, markov='no' if mk != 'yes' else 'yes', max_structs=4,
                        families=['dyadic', 'tenths', 'count', 'float', 'tiny']))
    if mk == 'only':
        m['base'] = [['M', draw(st.sampled_from([1.0, 0.5]))]]
        m['omen'] = dict(rsmodel.DEFAULT_OMEN)
        m['m_levels'] = [[0, 0.5]]
        m['keyspace'] = [[0, 1]]
    return {'model': m}


@st.composite
def many_structure_cases(draw):
    """A ruleset with 100-160 base structures (a list trained at high coverage) and the Markov structure at a drawn line of
    grammar.txt: 1, 50, 99-102, 128-130, last."""
    k = draw(st.sampled_from([100, 101, 105, 130, 160, 1500]))       # 1500 lines: grammar.txt of ~40 KB, the Markov line beyond any read buffer
    names = ['D1', 'D2', 'O1', 'K4', 'Y1', 'X1']
    vars_ = {}
    for nm in names:
        vals = draw(S.values_for(nm, 2))
        vars_[nm] = [[0.7, [vals[0]]], [0.3, [vals[1]]]] if draw(st.booleans()) else [[1.0, [vals[0]]]]
    structs, seen = [], set()
    i = 0
    import itertools
    for ln in (1, 2, 3, 4):
        for combo in itertools.product(names, repeat=ln):
            s_ = ''.join(combo)
            if s_ not in seen:
                seen.add(s_)
                structs.append(s_)
            if len(structs) >= k:
                break
        if len(structs) >= k:
            break
    # one strictly decreasing list of weights; the Markov structure takes the weight of the drawn line (the list stays sorted)
    ratio = draw(st.sampled_from([0.97, 0.99, 0.9])) if k < 1000 else 0.99
    pos = min(draw(st.sampled_from([0, 49, 98, 99, 100, 101, 127, 128, 129, len(structs)] if k < 1000 else [300, 700, 1400, len(structs)])), len(structs))
    w = [ratio ** j_ for j_ in range(len(structs) + 1)]
    tot = sum(w)
    order = structs[:pos] + ['M'] + structs[pos:]
    base = [[s_, x / tot] for s_, x in zip(order, w)]
    m = {'encoding': 'utf-8', 'uuid': 'c14-many', 'vars': vars_, 'base': base,
         'omen': {'ngram': 2, 'alphabet': ['a', 'b'], 'ip': [[0, 'a'], [1, 'b']], 'ep': [[0, 'a'], [1, 'b']], 'cp': [[0, 'aa'], [1, 'ab'], [0, 'ba'], [1, 'bb']],
                  'ln': [10, 0, 1] + [10] * 18},
         'm_levels': [[1, 0.05], [2, 0.01]], 'keyspace': [[1, 3], [2, 4]]}
    return {'model': m, 'markov_line': pos + 1}


def run_many(rec, seed, shard, nshards, tier):
    n = {'quick': 3, 'thorough': 30}[tier]
    core.hyp_run(rec, prop, many_structure_cases(), n, seed, shrink=False)


def run_main(rec, seed, shard, nshards, tier):
    n = {'quick': 120, 'thorough': 3000}[tier]
    core.hyp_run(rec, prop, cases(200 if tier == 'quick' else 1000), n, seed)


# ---------------------------------------------------------------- flags through save/restore
def prop_resume(case, rec):
    m, flags, k = case['model'], case['flags'], case['cut']
    root = _root()
    rsmodel.write_ruleset(os.path.join(root, 'Rules', 'T'), m)
    fa = (['--skip_brute'] if flags['skip_brute'] else []) + (['--all_lower'] if flags['skip_case'] else [])
    u = guard(case, session.run_main, root, ['-r', 'T', '-s', 'u'] + fa)
    if len(u.pops) < 2:
        rec.skip('fewer_than_2_preterminals')
        return
    k = 1 + k % len(u.pops)
    sname, neighbour = case.get('sessions') or ['f', None]
    for nm in (sname, neighbour):
        for ext in ('.sav', '.omn'):
            if nm and os.path.exists(os.path.join(root, nm + ext)):
                os.remove(os.path.join(root, nm + ext))
    a = guard(case, session.run_main, root, ['-r', 'T', '-s', sname] + fa, [(('before_pop', k), 'q')])
    if neighbour:
        # a second session next to it, same ruleset, OTHER flags, quit elsewhere: it has its own save file
        nf = case.get('neighbour_flags') or {}
        na = (['--skip_brute'] if nf.get('skip_brute') else []) + (['--all_lower'] if nf.get('skip_case') else [])
        guard(case, session.run_main, root, ['-r', 'T', '-s', neighbour] + na, [(('before_pop', 1 + case.get('neighbour_cut', 0)), 'q')])
    # flags given on the command line next to --load must not change anything: the session continues under the saved flags
    lf = case.get('load_flags') or {}
    la = (['--skip_brute'] if lf.get('skip_brute') else []) + (['--all_lower'] if lf.get('skip_case') else [])
    b = guard(case, session.run_main, root, ['-r', 'T', '-s', sname, '--load'] + la)
    both = flags['skip_brute'] and flags['skip_case']
    rec.case({'flags': flags, 'cut': k, 'U': len(u.pops)}, both or 'M' not in [s for s, _ in m['base']],
             S.describe(m) + [f"resume_flags:{int(flags['skip_brute'])}{int(flags['skip_case'])}"] + (['flags_next_to_load'] if la else []) + (['neighbour_session_other_flags'] if neighbour else []), key=[m, flags, k, lf, case.get('sessions'), case.get('neighbour_flags')])
    uset = Counter(u.pops)
    for p in b.pops:
        if p not in uset:
            raise Violation('resume_other_grammar', f'resumed run (flags from the save file {flags}) emitted {p}, which the uninterrupted flagged run never emits', case)
    if flags['skip_brute'] and any(p[0][0][0] == 'M' for p in b.pops):
        raise Violation('resume_markov', 'resumed skip_brute session emitted a Markov pre-terminal', case)
    got = Counter(a.pops[:-1]) + Counter(b.pops)
    if uset - got:
        raise Violation('resume_lost', f'flagged session + resume never emit {list((uset - got).items())[:4]}', case)
    want_lines = Counter(u.lines)
    have_lines = Counter(a.lines) + Counter(b.lines)
    if want_lines - have_lines or set(have_lines) - set(want_lines):
        raise Violation('resume_language', f'guesses differ from the language under the saved flags: missing {list((want_lines - have_lines).items())[:4]} '
                        f'foreign {list(set(have_lines) - set(want_lines))[:4]}', case)


@st.composite
def resume_cases(draw):
    m = draw(S.rulesets(max_pt=40, markov=draw(st.sampled_from(['yes', 'yes', 'no'])), max_structs=3,
                        families=['count', 'float', 'tenths', 'dyadic'], rich_levels=True))
    combos = [{'skip_brute': True, 'skip_case': False}, {'skip_brute': False, 'skip_case': True}, {'skip_brute': True, 'skip_case': True},
              {'skip_brute': False, 'skip_case': False}]
    flags = draw(st.sampled_from(combos))
    load_flags = draw(st.sampled_from([None, None] + combos[:3]))
    case = {'model': m, 'flags': flags, 'load_flags': load_flags, 'cut': draw(st.integers(0, 30))}
    if draw(st.integers(0, 2)) == 0:
        from ..histories import SESSION_PAIRS
        case['sessions'] = draw(st.sampled_from(SESSION_PAIRS))
        case['neighbour_flags'] = draw(st.sampled_from(combos))
        case['neighbour_cut'] = draw(st.integers(0, 20))
    return case


def run_resume(rec, seed, shard, nshards, tier):
    n = {'quick': 60, 'thorough': 1000}[tier]
    core.hyp_run(rec, prop_resume, resume_cases(), n, seed)


PARTS = [
    Part('restriction', run_main, prop, {'quick': 8, 'thorough': 16}),
    Part('flags_through_resume', run_resume, prop_resume, {'quick': 6, 'thorough': 16}),
    Part('many_structures', run_many, prop, {'quick': 3, 'thorough': 8}),
]
