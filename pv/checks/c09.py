"""C09 - standard output is exactly the guess stream (one guess per line, nothing else) and --limit N writes
exactly min(N,total) lines: the first N lines of the unlimited run, also inside a pre-terminal or a Markov level."""
import os
import subprocess
import sys
from collections import Counter

from hypothesis import strategies as st

from .. import core, rsmodel, omen_ref, session, strategies as S
from ..core import Part, Violation, guard

RULE = ("(Part large_groups: tied groups of 1000-20000 values, limits ending 1 / 999..1001 / 1023..1025 / 4095..4097 / n-1000 / n-1 / n / n+1 guesses into each big pre-terminal.) Hypothesis-generated synthetic rulesets (incl. Markov levels) x flag sets. (1) In-process: the real pcfg_guesser.main() "
        "is run unlimited (U) and with -n N for EVERY N in 1..total+2 (exhaustive per ruleset when total <= 80, otherwise all "
        "group boundaries +-1 plus generated N): stdout must equal U[:N]; U itself must be, segment by segment in queue order, "
        "the model-side expansion of each popped pre-terminal (Markov segments: the reference OMEN enumeration). (1b) a session is interrupted and resumed twice from the same saved state, unlimited and with -n N: the limited resume must be the first N lines of the unlimited one (N inside the restored Markov remainder included). (2) CLI: "
        "pcfg_guesser.py as a subprocess in a scratch copy of the working tree, stdin /dev/null or an open silent pipe: raw "
        "stdout bytes must be exactly the expected lines. Non-trivial = N strictly inside a pre-terminal of >=2 guesses or "
        "inside a Markov level; distinct = hash of (model, flags, N).")
ASSUMPTIONS = ["N >= 1 (the tool rejects N <= 0)", "UTF-8 locale for the subprocess (guesses that the locale cannot encode are outside the domain)",
               "exit status and stderr of the CLI are recorded, not judged (CPython may abort at shutdown when a daemon thread is blocked in input())"]

_ROOT = None


def _root():
    global _ROOT
    if _ROOT is None or not os.path.isdir(_ROOT):
        _ROOT = session.make_root('c09')
    return _ROOT


def argv_for(flags):
    a = ['-r', 'T', '-s', 's']
    if flags.get('skip_brute'):
        a.append('--skip_brute')
    if flags.get('skip_case'):
        a.append('--all_lower')
    return a


def check_unlimited(case, m, flags, u):
    """U == concatenation, in queue order, of the model-side expansion of every popped pre-terminal."""
    vs, base = rsmodel.effective(m, flags['skip_brute'], flags['skip_case'])
    om = omen_ref.from_model_dict(m['omen']) if m.get('omen') else None
    seg = {}
    for line, gp in zip(u.lines, u.guess_pop):
        seg.setdefault(gp, []).append(line)
    if len(u.guess_pop) != len(u.lines):
        raise Violation('stdout_not_guesses', f'{len(u.lines)} lines on stdout but {len(u.guess_pop)} guesses were produced: '
                        f'{[l for l in u.lines if l not in set(x for v in seg.values() for x in v)][:5]}', case)
    total_expected = 0
    for i, (pt, prob) in enumerate(u.pops, start=1):
        got = seg.get(i, [])
        if pt[0][0] == 'M':
            lvl = int(vs['M'][pt[0][1]][1][0])
            want = omen_ref.enumerate_level(om, lvl, cap=20000)
            if want is None:
                continue
        else:
            want = rsmodel.expand(vs, pt)
        total_expected += len(want)
        if Counter(want) != Counter(got):
            raise Violation('unlimited_stream', f'pre-terminal #{i} {pt}: stdout segment {got[:6]} != model expansion {want[:6]}', case)
    if 0 in seg:
        raise Violation('stdout_not_guesses', f'guesses written before the first pre-terminal: {seg[0][:5]}', case)


def prop_limit(case, rec):
    m, flags = case['model'], case['flags']
    root = _root()
    rsmodel.write_ruleset(os.path.join(root, 'Rules', 'T'), m)
    u = guard(case, session.run_main, root, argv_for(flags))
    if u.error:
        raise Violation('crash:main', f'main() ended with {u.error}: {u.stderr[-400:]}', case)
    check_unlimited(case, m, flags, u)
    total = len(u.lines)
    if total == 0:
        rec.skip('empty_language')
        return
    # group boundaries
    bounds = set()
    sizes = Counter(u.guess_pop)
    acc = 0
    inside = set()
    markov_inside = set()
    for i, (pt, _) in enumerate(u.pops, start=1):
        n = sizes.get(i, 0)
        for j in range(acc + 1, acc + n):
            if n >= 2:
                inside.add(j)
                if pt[0][0] == 'M':
                    markov_inside.add(j)
        acc += n
        bounds.update((acc - 1, acc, acc + 1))
    if case.get('ns'):
        ns = case['ns']
    elif case.get('threshold_ns'):
        # big pre-terminals: limits that end 1 / 999 / 1000 / 1001 / 1023..1025 / 4095..4097 / n-1 / n / n+1 guesses into them
        ns, acc = set(), 0
        for i, (pt, _) in enumerate(u.pops, start=1):
            n = sizes.get(i, 0)
            if n >= 1000:
                for k in (1, 2, 500, 999, 1000, 1001, 1023, 1024, 1025, 4095, 4096, 4097, 9999, 10000, 10001, n - 1000, n - 999, n - 1, n, n + 1):
                    if 1 <= k <= n + 1:
                        ns.add(acc + k)
            acc += n
        ns = sorted(ns)[:case.get('max_ns', 40)]
    elif total <= 80:
        ns = list(range(1, total + 3))
    else:
        ns = sorted(n for n in bounds | set(case.get('extra_ns', [])) if 1 <= n <= total + 2)[:120]
    if not case.get('ns') and not case.get('threshold_ns') and total <= 5000:
        # status and help requests are answered on stderr: the same run with [ENTER] / 'h' pressed inside a Markov level, inside an
        # ordinary pre-terminal and at the first and last guess must leave stdout unchanged (C09-r17: a new status line for Markov
        # levels printed with file=None)
        spots = [1, total] + sorted(markov_inside)[:1] + sorted(markov_inside)[-1:] + sorted(inside - markov_inside)[:1]
        evs = [[['guess', j], key] for j, key in zip(sorted(set(spots)), ['', 'h', '', '', 'h'])]
        sub = dict(case, status_events=evs)
        r = guard(sub, session.run_main, root, argv_for(flags), events=[(tuple(p_), e) for p_, e in evs])
        rec.case({'status_events': evs, 'total': total, 'flags': flags}, bool(markov_inside), ['status_requests'] + (['status_inside_markov'] if markov_inside else []),
                 key=[m, flags, 'status'])
        if r.lines != u.lines:
            bad = [x for x in r.lines if x not in set(u.lines)][:3]
            raise Violation('stdout_not_guesses', f'status / help requests at {evs} changed stdout: {len(r.lines)} lines instead of {total}; lines that are not guesses: {bad}', sub)
    for n in ns:
        sub = dict(case, ns=[n])
        r = guard(sub, session.run_main, root, argv_for(flags) + ['-n', str(n)])
        cls = ['limit_inside_markov'] if n in markov_inside else (['limit_inside_preterminal'] if n in inside else ['limit_on_boundary_or_beyond'])
        if n > total:
            cls = ['limit_beyond_total']
        rec.case({'N': n, 'total': total, 'flags': flags}, n in inside, cls, key=[m, flags, n])
        if r.lines != u.lines[:n]:
            raise Violation('limit', f'-n {n}: {len(r.lines)} lines written, expected {min(n, total)} = first lines of the unlimited run; '
                            f'got tail {r.lines[-3:]}, expected tail {u.lines[:n][-3:]}', sub)


@st.composite
def cases(draw, max_pt):
    from .c01 import FLAGSETS
    flags = dict(draw(st.sampled_from(FLAGSETS[:4])))
    flags.pop('folder')
    m = draw(S.rulesets(max_pt=max_pt, markov=draw(st.sampled_from(['no', 'yes', 'yes'])), max_structs=3,
                        families=['dyadic', 'tenths', 'count', 'float']))
    extra = draw(st.lists(st.integers(1, 400), max_size=8))
    return {'model': m, 'flags': flags, 'extra_ns': extra}


@st.composite
def large_cases(draw, sizes):
    """A ruleset whose pre-terminals are big: a tied group of G >= 1000 values, alone and behind an alpha word."""
    G = draw(st.sampled_from(sizes))
    width = len(str(G)) + 1
    big = ['9' + str(i).zfill(width - 1) for i in range(G)]
    name = 'D' + str(width)
    vars_ = {name: [[0.6, ['1' * width, '0' * width]], [0.4 / G, big]],
             'A3': [[0.7, ['cat']], [0.3, ['dog']]], 'C3': [[0.75, ['LLL']], [0.25, ['ULL']]]}
    base = [[name, 0.5], ['A3' + name, 0.3], ['A3', 0.2]]
    m = {'encoding': 'utf-8', 'uuid': 'c09-large', 'vars': vars_, 'base': base, 'm_levels': []}
    flags = {'skip_brute': False, 'skip_case': draw(st.booleans())}
    return {'model': m, 'flags': flags, 'threshold_ns': True, 'max_ns': draw(st.sampled_from([24, 24, 40]))}


def run_large(rec, seed, shard, nshards, tier):
    n = {'quick': 3, 'thorough': 6}[tier]
    sizes = {'quick': [1000, 1001, 1400, 2048], 'thorough': [1000, 1400, 4096, 5000, 10000, 20000]}[tier]
    core.hyp_run(rec, prop_limit, large_cases(sizes), n, seed, shrink=False)


def run_limit(rec, seed, shard, nshards, tier):
    n = {'quick': 40, 'thorough': 500}[tier]
    core.hyp_run(rec, prop_limit, cases(12 if tier == 'quick' else 40), n, seed)


# ---------------------------------------------------------------- --limit on a resumed session
def prop_resume_limit(case, rec):
    """A session is interrupted, then resumed twice from the same saved state: unlimited and with -n N. The limited resume
    must write the first N lines of the unlimited resume."""
    import shutil
    m, flags, j = case['model'], case['flags'], case['quit_at']
    root = _root()
    rsmodel.write_ruleset(os.path.join(root, 'Rules', 'T'), m)
    if case.get('first_run_limit'):
        # history variant: the first run is not interrupted by 'q' but ends by its own --limit K; a later --load must not inherit K
        a = guard(case, session.run_main, root, argv_for(flags) + ['-n', str(case['first_run_limit'])])
        if not a.sav:
            rec.skip('no_save_file_after_limited_run')
            return
    else:
        a = guard(case, session.run_main, root, argv_for(flags), [(('guess', j), 'q')])
        if not a.saved_on_quit or a.exhausted:
            rec.skip('quit_not_noticed_before_the_end')
            return
    keep = {}
    for ext in ('.sav', '.omn'):
        pth = os.path.join(root, 's' + ext)
        if os.path.exists(pth):
            keep[pth] = open(pth, 'rb').read()

    def restore():
        for ext in ('.sav', '.omn'):
            pth = os.path.join(root, 's' + ext)
            if pth in keep:
                with open(pth, 'wb') as f:
                    f.write(keep[pth])
            elif os.path.exists(pth):
                os.remove(pth)

    bu = guard(case, session.run_main, root, ['-r', 'T', '-s', 's', '--load'])
    total = len(bu.lines)
    if case.get('first_run_limit'):
        # the save file of a run that ended by its limit describes the start of the session: the unlimited resume is the whole stream
        uu = guard(case, session.run_main, root, argv_for(flags) + ['-s', 'uu'])
        if any(p_ > 1.0 for _, p_ in uu.pops):
            # not a well-formed ruleset for this history: the generated base probabilities add up to more than 1, so that the
            # skip_brute rescaling yields "probabilities" above 1.0, which the initial save position (1.0) excludes
            rec.skip('probabilities_above_one_after_rescaling')
            return
        if bu.lines != uu.lines:
            raise Violation('resume_after_limited_run', f'a run with -n {case["first_run_limit"]} followed by an unlimited --load writes {len(bu.lines)} lines, '
                            f'the unlimited stream has {len(uu.lines)}', case)
    in_remainder = sum(1 for g in bu.guess_pop if g == 0)
    ns = case.get('ns') or sorted(set([1, 2, 3, in_remainder - 1, in_remainder, in_remainder + 1, total - 1, total, total + 1] + case.get('extra_ns', [])))
    for n in ns:
        if n < 1:
            continue
        restore()
        sub = dict(case, ns=[n])
        r = guard(sub, session.run_main, root, ['-r', 'T', '-s', 's', '--load', '-n', str(n)])
        cls = ['resume_limit'] + (['resume_limit_inside_restored_markov_remainder'] if 0 < n < in_remainder else []) + (['load_after_limited_run'] if case.get('first_run_limit') else [])
        rec.case({'quit_at': j, 'N': n, 'resumed_total': total, 'remainder': in_remainder}, total >= 2 and n < total, cls, key=[m, flags, j, n])
        if r.lines != bu.lines[:n]:
            raise Violation('limit_on_resume', f'quit after guess {j}, --load -n {n}: {len(r.lines)} lines written, expected {min(n, total)} = the first lines of the '
                            f'unlimited resume (its first {in_remainder} lines are the restored Markov remainder); tail {r.lines[-3:]} vs {bu.lines[:n][-3:]}', sub)
        if n < total and case.get('then_load_again', True):
            # the limited resume ended by its limit (no quit, so nothing need be saved): one more --load must still deliver whatever the
            # limited run did not write - replaying is allowed, losing is not
            r3 = guard(sub, session.run_main, root, ['-r', 'T', '-s', 's', '--load'])
            lost = Counter(bu.lines) - (Counter(r.lines) + Counter(r3.lines))
            rec.cls('load_again_after_a_limited_resume')
            if lost:
                raise Violation('lost_after_limited_resume', f'quit after guess {j}, --load -n {n} (wrote {len(r.lines)}), then --load: never written by either: '
                                f'{list(lost.items())[:5]} (second resume starts with {r3.lines[:3]})', sub)


@st.composite
def resume_limit_cases(draw):
    c = draw(cases(12))
    c['quit_at'] = draw(st.integers(1, 15))
    if draw(st.integers(0, 3)) == 0:
        c['first_run_limit'] = draw(st.integers(1, 6))
    return c


def run_resume_limit(rec, seed, shard, nshards, tier):
    n = {'quick': 25, 'thorough': 500}[tier]
    core.hyp_run(rec, prop_resume_limit, resume_limit_cases(), n, seed)


# ---------------------------------------------------------------- CLI subprocess
_CLI = None


def _cli_root():
    global _CLI
    if _CLI is None or not os.path.isdir(_CLI):
        _CLI = session.copy_cli(session.make_root('c09cli'))
    return _CLI


def run_cli(root, args, stdin_mode, timeout=120, ctx=None):
    from .. import cli
    ctx = ctx or cli.DEFAULT
    env = cli.env_for(ctx)
    cwd = cli.cwd_for(root, ctx)
    cmd = [sys.executable, cli.script_path(root, 'pcfg_guesser.py', ctx)] + args
    if stdin_mode == 'devnull':
        p = subprocess.run(cmd, stdin=subprocess.DEVNULL, capture_output=True, env=env, timeout=timeout, cwd=cwd)
        return p.stdout, p.stderr, p.returncode
    if stdin_mode == 'open_pipe':
        p = subprocess.Popen(cmd, stdin=subprocess.PIPE, stdout=subprocess.PIPE, stderr=subprocess.PIPE, env=env, cwd=cwd)
        try:
            out = p.stdout.read()        # until the child closes stdout (exit); stdin stays open and silent
            err = p.stderr.read()
            p.wait(timeout=timeout)
        finally:
            try:
                p.stdin.close()
            except Exception:
                pass
            if p.poll() is None:
                p.kill()
        return out, err, p.returncode
    raise ValueError(stdin_mode)


def prop_cli(case, rec):
    m, flags, n, mode = case['model'], case['flags'], case.get('n'), case['stdin']
    iroot = _root()
    rsmodel.write_ruleset(os.path.join(iroot, 'Rules', 'T'), m)
    u = guard(case, session.run_main, iroot, argv_for(flags))
    from .. import cli
    root = _cli_root()
    ctx = case.get('context') or cli.DEFAULT
    rule = ctx.get('rule', 'T')
    rsmodel.write_ruleset(os.path.join(root, 'Rules', rule), m)
    args = [rule if a == 'T' else a for a in argv_for(flags)] + (['-n', str(n)] if n else [])
    if case.get('long_options'):
        args = [{'-r': '--rule', '-s': '--session', '-n': '--limit'}.get(a, a) for a in args]
    try:
        out, err, rc = run_cli(root, args, mode, ctx=ctx)
    except subprocess.TimeoutExpired:
        rec.skip('cli_timeout_inconclusive')
        return
    want_lines = u.lines[:n] if n else u.lines
    want = ''.join(l + '\n' for l in want_lines).encode('utf-8')
    rec.case({'args': args, 'stdin': mode, 'lines': len(want_lines), 'rc': rc, 'context': ctx}, len(want_lines) >= 2,
             ['cli_' + mode, 'cli_limit' if n else 'cli_unlimited'] + cli.label(ctx), key=[m, flags, n, mode, ctx, case.get('long_options')])
    if ctx.get('io') == 'ascii':
        # a stdout that cannot represent every guess. Whatever the tool does with those (the unchanged tool drops them but counts
        # them), the guesses of this run that do arrive keep the run's order, the representable ones form a prefix of the
        # representable guesses of the unlimited run, at least those among the first N and at most N of them
        def ascii_ok(x):
            try:
                x.encode('ascii')
                return True
            except UnicodeEncodeError:
                return False
        member = set(u.lines)
        # a guess may also arrive in an escaped spelling (any of Python's codec error handlers): it is still that guess
        escaped = {}
        for g_ in member:
            if not ascii_ok(g_):
                for h in ('backslashreplace', 'xmlcharrefreplace', 'namereplace', 'replace', 'ignore'):
                    escaped.setdefault(g_.encode('ascii', h).decode('ascii'), g_)
        got = []
        for l in out.decode('utf-8', 'replace').split('\n')[:-1]:
            if l in member:
                got.append(l)
            elif l in escaped:
                got.append(escaped[l])
        all_ascii = [l for l in u.lines if ascii_ok(l)]
        got_ascii = [l for l in got if ascii_ok(l)]
        least = len([l for l in want_lines if ascii_ok(l)])
        rec.cls('cli_stdout_cannot_encode_some_guess' if least < len(want_lines) else 'cli_ascii_stdout_all_encodable')
        it = iter(u.lines)
        in_order = all(any(x == y for y in it) for x in got)
        if got_ascii != all_ascii[:len(got_ascii)] or len(got_ascii) < least or (n and len(got_ascii) > n) or not in_order:
            raise Violation('cli_stdout', f'{args} with an ascii-only stdout: the guesses that arrived are not the run\'s guesses in the run\'s order: '
                            f'{got[:6]} (run: {want_lines[:6]}; representable: {all_ascii[:6]}; in order: {in_order}); rc={rc}', case)
        return
    if out != want:
        got = out.decode('utf-8', 'replace').split('\n')
        raise Violation('cli_stdout', f'{args} stdin={mode}: stdout has {len(got) - 1} lines, expected {len(want_lines)}; first lines {got[:4]} '
                        f'expected {want_lines[:4]}; rc={rc}; stderr tail {err.decode("utf-8", "replace")[-300:]}', case)


@st.composite
def cli_cases(draw):
    c = draw(cases(12))
    c.pop('extra_ns')
    c['n'] = draw(st.sampled_from([None, 1, 2, 3, 5, 7, 11]))
    c['stdin'] = draw(st.sampled_from(['devnull', 'devnull', 'open_pipe']))
    from .. import cli
    c['context'] = draw(cli.contexts(io_modes=('utf8', 'utf8', 'utf8_strict', 'ascii', 'ascii')))
    c['long_options'] = draw(st.booleans())
    return c


def run_cli_part(rec, seed, shard, nshards, tier):
    n = {'quick': 6, 'thorough': 60}[tier]
    core.hyp_run(rec, prop_cli, cli_cases(), n, seed, shrink=(tier == 'thorough'))


PARTS = [
    Part('limit_every_n', run_limit, prop_limit, {'quick': 8, 'thorough': 16}),
    Part('limit_on_resumed_session', run_resume_limit, prop_resume_limit, {'quick': 6, 'thorough': 16}),
    Part('cli_subprocess', run_cli_part, prop_cli, {'quick': 4, 'thorough': 8}),
    Part('large_groups', run_large, prop_limit, {'quick': 2, 'thorough': 8}),
]
