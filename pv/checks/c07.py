"""C07 - a saved ruleset means the same thing to every tool that loads it; the config lists name exactly the files
that exist; no accepted password can put a value on disk that the line-oriented format cannot return unchanged."""
import configparser
import json
import os
from collections import Counter

from hypothesis import strategies as st

from .. import core, pwgen, rsmodel, trainer, strategies as S
from ..core import Part, Violation, guard

core.use_repo()

RULE = ("(1) EXHAUSTIVE sweep: every Unicode code point (and, for the single-byte encodings, every byte) that the repository's input "
        "filter accepts and the encoding can represent, at four positions (c, ac, cb, acb) plus space-padded variants, is written "
        "by the real calculate_and_save_counter and read back by the real guesser loader and the real scorer loader, in batches with "
        "bisection on mismatch; files of 999..10001 lines are round-tripped as well. (2) Hypothesis-generated training lists x 11 encodings (utf-8-sig among them: through the loaders that can read it, see assumptions) through the real trainer: value -> probability "
        "computed from the trainer's own counters must equal the flattened groups of the real PcfgGrammar and the real "
        "PCFGPasswordScorer tables (exact float equality - the writer uses repr); base structures likewise; the trainer's OMEN "
        "IP/CP/LN levels and alphabet must equal what the guesser's load_rules and the scorer's OmenScorer load; config.ini file "
        "lists must equal the directory listings. Non-trivial = value with a non-ASCII or whitespace character, or a ruleset with "
        ">=3 length files; distinct = code point / hash of (list, options). Scale parts: lists of 40 001 (quick) to 160 001 lines (thorough, > 4 MiB) round-tripped, each also with every line exactly 32 bytes long (every power-of-two block boundary on a line end), and a training list of 42 000 distinct passwords (more than 32 768 rows in the OMEN tables) through the trainer and all loaders.")
ASSUMPTIONS = ["supported encodings are the ASCII-compatible ones (utf-8, ascii, latin-1, cp1251, cp1252, koi8-r, iso-8859-2/15)",
               "utf-8-sig: PcfgGrammar as a whole cannot load such a ruleset on the unchanged tree (omen_keyspace.txt); the guesser's load_grammar and load_rules and the scorer's loaders can, and only those are compared for it",
               "a run in which the trainer does not complete is skipped and counted"]

_DIR = None
SINGLE_BYTE = ['latin-1', 'cp1251', 'cp1252', 'ascii', 'iso-8859-15', 'iso-8859-2', 'koi8-r', 'cp1250']


def _dir():
    global _DIR
    if _DIR is None or not os.path.isdir(_DIR):
        _DIR = core.scratch_dir('c07')
    return _DIR


def accepted(s, enc):
    from lib_trainer.trainer_file_input import check_valid
    try:
        s.encode(enc)
    except UnicodeEncodeError:
        return False
    return check_valid(s)


def roundtrip(values, enc, case):
    """Writes values with the real writer, reads them with both real loaders; returns the list of values that differ."""
    from lib_trainer.save_pcfg_data import calculate_and_save_counter
    from lib_guesser.grammar_io import _load_from_file as gload
    from lib_scorer.grammar_io import _load_from_file as sload
    path = os.path.join(_dir(), 'rt.txt')
    cnt = Counter()
    for i, v in enumerate(values):
        cnt[v] = 1 if case.get('aligned') else 1 + (i % 3)          # aligned: one probability, so every line has the same length
    total = sum(cnt.values())
    with core.quiet():
        ok = guard(case, calculate_and_save_counter, path, cnt, enc)
    if not ok:
        return list(values), 'writer_failed'
    want = {v: c / total for v, c in cnt.items()}
    section = []
    sc = Counter()
    with core.quiet():
        g_ok = guard(case, gload, section, path, enc)
        s_ok = guard(case, sload, sc, path, enc)
    got_g = {}
    for grp in section:
        for v in grp['values']:
            got_g[v] = grp['prob']
    got_s = dict(sc)
    bad = [v for v in values if got_g.get(v) != want[v] or got_s.get(v) != want[v]]
    if not bad and (len(got_g) != len(want) or len(got_s) != len(want) or not g_ok or not s_ok):
        return list(values), 'extra_or_failed'
    return bad, None


def roundtrip_positions(v, order, enc, case):
    """v as the first (most probable) or last (least probable) line of a small file."""
    from lib_trainer.save_pcfg_data import calculate_and_save_counter
    from lib_guesser.grammar_io import _load_from_file as gload
    from lib_scorer.grammar_io import _load_from_file as sload
    path = os.path.join(_dir(), 'pos.txt')
    cnt = Counter()
    if order == 'first':
        cnt[v] = 5
        cnt['zz'] = 2
        cnt['yy'] = 1
    else:
        cnt['zz'] = 5
        cnt['yy'] = 3
        cnt[v] = 1
    total = sum(cnt.values())
    with core.quiet():
        guard(case, calculate_and_save_counter, path, cnt, enc)
        section, sc = [], Counter()
        guard(case, gload, section, path, enc)
        guard(case, sload, sc, path, enc)
    want = {k: c / total for k, c in cnt.items()}
    got_g = {x: grp['prob'] for grp in section for x in grp['values']}
    if got_g != want or dict(sc) != want:
        return [v], 'position'
    return [], None


def find_bad(values, enc, case):
    bad, why = roundtrip(values, enc, case)
    if not bad:
        return []
    if len(values) == 1:
        return list(values)
    mid = len(values) // 2
    sub = find_bad(values[:mid], enc, case) + find_bad(values[mid:], enc, case)
    if not sub:
        # fails only as a whole batch (depends on the number of lines, not on one value): report what the whole batch lost
        return bad[:20]
    return sub


def run_sweep(rec, seed, shard, nshards, tier):
    """Exhaustive; sharded by code point range."""
    jobs = []
    lo = 0x20
    hi = 0x110000
    step = (hi - lo + nshards - 1) // nshards
    a, b = lo + shard * step, min(hi, lo + (shard + 1) * step)
    case = {'sweep': 'utf-8', 'range': [a, b]}
    n_ok = 0
    n_vals = [0]
    batch = []
    bad_all = []

    def flush():
        nonlocal batch
        if batch:
            bad_all.extend(find_bad(batch, 'utf-8', case))
            batch = []

    for cp in range(a, b):
        c = chr(cp)
        if 0xd800 <= cp <= 0xdfff:
            continue
        any_ok = False
        for v in (c, 'a' + c, c + 'b', 'a' + c + 'b'):
            if accepted(v, 'utf-8'):           # the input filter decides per password, so ask it per value
                batch.append(v)
                n_vals[0] += 1
                any_ok = True
        n_ok += any_ok
        if len(batch) >= 8000:
            flush()
    flush()
    rec.count(n_vals[0])
    for cp in range(a, b, max(1, (b - a) // 3000)):
        rec.nontrivial_key(['utf-8', cp])
    rec.sample({'encoding': 'utf-8', 'code_points': [hex(a), hex(b)], 'accepted': n_ok, 'positions': ['c', 'ac', 'cb', 'acb']})
    # single-byte encodings and padded values on shard 0
    if shard == 0:
        for enc in SINGLE_BYTE:
            vals = []
            for byte in range(0x20, 0x100 if enc != 'ascii' else 0x80):
                try:
                    c = bytes([byte]).decode(enc)
                except UnicodeDecodeError:
                    continue
                for v in (c, 'a' + c, c + 'b', 'a' + c + 'b'):
                    if accepted(v, enc):
                        vals.append(v)
                        rec.nontrivial_key([enc, byte])
            rec.count(len(vals))
            bad_all.extend([f'{enc}:{v}' for v in find_bad(vals, enc, dict(case, sweep=enc))])
        padded = [' ', '  ', ' a', 'a ', ' a ', 'a  b', '\u00a0', '\u00a0a\u00a0', '\u3000', 'x\u3000', ' #1', '1 ', '\u2003x', 'x\u2003', '\ufeffa', 'a\u200b']
        padded = [v for v in padded if accepted(v, 'utf-8')]
        rec.count(len(padded))
        bad_all.extend(find_bad(padded, 'utf-8', dict(case, sweep='padded')))
    # position-sensitive round trip: every "special" code point (white space, format, separator characters - the ones readers
    # are tempted to trim) as the FIRST and as the LAST line of a file of its own; quick tier: those classes, thorough: in addition
    # every 97th code point of the shard
    import unicodedata
    def special(cp_):
        ch = chr(cp_)
        return ch.isspace() or unicodedata.category(ch) in ('Zs', 'Zl', 'Zp', 'Cf', 'Cc', 'Mn', 'Lm', 'Sk') and cp_ < 0x3100 or cp_ in (0xfeff, 0xfffe, 0xffff, 0xfff9, 0xfffa, 0xfffb, 0xfffc, 0xfffd, 0xe0001, 0x1d173)
    n_pos = 0
    for cp in range(a, b):
        if 0xd800 <= cp <= 0xdfff:
            continue
        if not (special(cp) or (tier == 'thorough' and cp % 97 == 0)):
            continue
        c = chr(cp)
        for v in (c, c + 'b', 'a' + c):
            if not accepted(v, 'utf-8'):
                continue
            for order in ('first', 'last'):
                bad_, why = roundtrip_positions(v, order, 'utf-8', case)
                n_pos += 1
                if bad_:
                    bad_all.append(v)
    rec.count(n_pos)
    rec.classes['first_or_last_line_positions'] += n_pos
    rec.exhaustive = True
    if bad_all:
        shown = [(v if isinstance(v, str) else str(v)) for v in bad_all[:6]]
        raise Violation('value_round_trip', f'{len(bad_all)} accepted value(s) are not read back unchanged by the guesser and scorer loaders, e.g. '
                        f'{[s.encode("unicode_escape").decode() for s in shown]}', {'values': shown, 'encoding': 'utf-8'})


def replay_values(case, rec):
    if 'values' in case:
        vals = [v.split(':', 1)[1] if v.split(':', 1)[0] in SINGLE_BYTE else v for v in case['values']]
        enc = case.get('encoding', 'utf-8')
        bad = find_bad([v for v in vals if accepted(v, enc)], enc, case)
        if bad:
            raise Violation('value_round_trip', f'not read back unchanged: {[s.encode("unicode_escape").decode() for s in bad]}', case)
    else:
        prop(case, rec)


# ---------------------------------------------------------------- trained rulesets through all loaders
def flat_probs(counter_by_len):
    out = {}
    for ln, cnt in counter_by_len.items():
        total = sum(cnt.values())
        out[ln] = {v: c / total for v, c in cnt.items()}
    return out


def prop(case, rec):
    from .. import guesser
    from lib_scorer.pcfg_password_scorer import PCFGPasswordScorer
    from lib_scorer.grammar_io import load_grammar as s_load_grammar
    enc = case['encoding']
    pws = []
    for p, c in case['entries']:
        pws += [p] * c
    path = os.path.join(_dir(), 'train.txt')
    trainer.write_training_file(path, pws, enc)
    if case.get('raw_lines'):
        # extra raw lines: $HEX[] renderings of ordinary passwords and of text the input filter must refuse (it is the decoded
        # password that must be valid: a tab, line feed or line separator may not reach the line-oriented rules files)
        with open(path, 'ab') as f:
            for hx in case['raw_lines']:
                f.write(bytes.fromhex(hx) + b'\n')
    out = os.path.join(_dir(), 'R[ab] *v1.0')        # legal rule name with glob / regex metacharacters and a space
    keep = False
    if case.get('previous_training'):
        # the directory already holds the ruleset of an EARLIER training (other lengths, other types): re-training must leave
        # exactly the files the configuration lists
        prev = os.path.join(_dir(), 'prev.txt')
        trainer.write_training_file(prev, ['zzzzzzzzzzzzzzzzzz1234567', '!!!!!!!!!!', 'bob@earlier.example.com', 'abcdefghijklmnopqrstuvwxyz', '19991999'] * 2, 'utf-8')
        r0 = guard(case, trainer.train, prev, out, encoding='utf-8', coverage=0.6, ngram=3, alphabet_size=100)
        keep = bool(r0.ok)
        rec.cls('directory_held_an_earlier_ruleset')
    r = guard(case, trainer.train, path, out, keep_dir=keep, encoding=enc, coverage=case['coverage'], ngram=case['ngram'], alphabet_size=case['alphabet_size'])
    if not r.ok:
        if r.error is not None and not isinstance(r.error, ZeroDivisionError):
            raise Violation('crash:' + type(r.error).__name__, f'run_trainer raised {r.error!r}', case)
        trainer.skip_or_alarm(rec, r, case, case['entries'], case['alphabet_size'])
        return
    P = r.parser
    if case.get('file_style'):
        # the ruleset after a line-end conversion / hand edit of its files (CRLF, last line without terminator)
        rsmodel.restyle(out, case['file_style'])
        rec.cls('trained_ruleset_restyled_' + case['file_style'].get('eol', 'lf'))
    if enc == 'utf-8-sig':
        # an encoding with a byte order mark (what chardet reports for a list saved by a Windows editor): PcfgGrammar as a whole
        # cannot load such a ruleset on the unchanged tree (omen_keyspace.txt, see DESIGN 9.7), but the guesser's grammar loader,
        # its OMEN loader and the scorer's loaders can - those are held to the property
        import types
        from lib_guesser.grammar_io import load_grammar as g_load_grammar
        from lib_guesser.omen.input_file_io import load_rules as g_load_omen
        with core.quiet():
            gg, gbase, _info = guard(case, g_load_grammar, 'T', out, guesser.VERSION, False, False, 'Grammar')
            og_ = {}
            if not guard(case, g_load_omen, os.path.join(out, 'Omen'), og_):
                raise Violation('omen_load_failed', "the guesser's OMEN loader could not read a ruleset the trainer just wrote", case)
        g = types.SimpleNamespace(grammar=gg, base=gbase, omen_grammar=og_)
        rec.cls('encoding_with_byte_order_mark')
    else:
        g = guard(case, guesser.load, out)
    sc = PCFGPasswordScorer(limit=0)
    with core.quiet():
        if not guard(case, s_load_grammar, sc, out):
            raise Violation('scorer_load_failed', 'the scorer could not load a ruleset the trainer just wrote', case)
        sc.create_multiword_detector()
        try:
            guard(case, sc.create_omen_scorer, out, 9)
        except Violation:
            raise
    n_len_files = 0
    nonascii = False
    # ---- terminals
    for cat, cnt_by_len, sc_tab in (('A', P.count_alpha, sc.count_alpha), ('C', P.count_alpha_masks, sc.count_alpha_masks),
                                    ('D', P.count_digits, sc.count_digits), ('O', P.count_other, sc.count_other),
                                    ('K', P.count_keyboard, sc.count_keyboard)):
        want = flat_probs(cnt_by_len)
        n_len_files += len(want)
        for ln, probs in want.items():
            name = f'{cat}{ln}'
            if any(ord(ch) > 127 or ch.isspace() for v in probs for ch in v):
                nonascii = True
            got = {v: grp['prob'] for grp in g.grammar.get(name, []) for v in grp['values']}
            if got != probs:
                diff = {k: (got.get(k), probs.get(k)) for k in set(got) | set(probs) if got.get(k) != probs.get(k)}
                raise Violation('guesser_disagrees', f'{name}: the guesser loads {dict(list(diff.items())[:4])} (loaded, written by the trainer)', case)
            got_s = dict(sc_tab.get(ln, {}))
            if got_s != probs:
                diff = {k: (got_s.get(k), probs.get(k)) for k in set(got_s) | set(probs) if got_s.get(k) != probs.get(k)}
                raise Violation('scorer_disagrees', f'{name}: the scorer loads {dict(list(diff.items())[:4])} (loaded, written by the trainer)', case)
        loaded_names = {k for k in g.grammar if k[0] == cat and k[1:].isdigit()}
        if loaded_names != {f'{cat}{ln}' for ln in want}:
            raise Violation('length_files', f'{cat}: the guesser loaded {sorted(loaded_names)}, the trainer produced lengths {sorted(want)}', case)
    for name, cnt, sc_tab in (('Y1', P.count_years, sc.count_years), ('X1', P.count_context_sensitive, sc.count_context_sensitive)):
        total = sum(cnt.values())
        probs = {v: c / total for v, c in cnt.items()} if total else {}
        got = {v: grp['prob'] for grp in g.grammar.get(name, []) for v in grp['values']}
        if got != probs or dict(sc_tab) != probs:
            raise Violation('guesser_disagrees', f'{name}: guesser {got}, scorer {dict(sc_tab)}, trainer {probs}', case)
    # ---- base structures
    total = sum(P.count_base_structures.values())
    bprobs = {s: c / total for s, c in P.count_base_structures.items()}
    if dict(sc.count_base_structures) != bprobs:
        raise Violation('scorer_disagrees', f'base structures: scorer {dict(list(sc.count_base_structures.items())[:4])} vs trainer {dict(list(bprobs.items())[:4])}', case)
    gb = Counter()
    for b in g.base:
        gb[''.join(t for t in b['replacements'] if t[0] != 'C')] += 0
        gb[''.join(t for t in b['replacements'] if t[0] != 'C')] = b['prob']
    if dict(gb) != bprobs:
        raise Violation('guesser_disagrees', f'base structures: guesser {dict(list(gb.items())[:4])} vs trainer {dict(list(bprobs.items())[:4])}', case)
    # ---- OMEN tables
    T = r.omen_trainer
    t_ip = {k: v['ip_level'] for k, v in T.grammar.items()}
    t_cp = {k + ch: lv[0] for k, v in T.grammar.items() for ch, lv in v['next_letter'].items()}
    t_ln = [x[0] for x in T.ln_lookup]
    og = g.omen_grammar
    g_ip = {s: lvl for lvl, lst in og['ip'].items() for s in lst}
    g_cp = {ctx + ch: lvl for ctx, d in og['cp'].items() for lvl, chars in d.items() for ch in chars}
    if g_ip != t_ip or sum(len(v) for v in og['ip'].values()) != len(t_ip):
        raise Violation('omen_guesser_disagrees', f'IP levels: guesser has {len(g_ip)} entries, trainer {len(t_ip)}; diff {list(set(g_ip.items()) ^ set(t_ip.items()))[:4]}', case)
    if g_cp != t_cp:
        raise Violation('omen_guesser_disagrees', f'CP levels differ: {list(set(g_cp.items()) ^ set(t_cp.items()))[:4]}', case)
    n = T.ngram
    g_ln = {}
    for lvl, lst in og['ln'].items():
        for ncp in lst:
            g_ln[ncp + (n - 1)] = lvl
    if g_ln != {i + 1: l for i, l in enumerate(t_ln) if i + 1 >= n}:
        raise Violation('omen_guesser_disagrees', f'length levels: guesser {g_ln}, trainer {t_ln}', case)
    if og['ngram'] != n or list(og['alphabet']) != list(r.program_info['alphabet']):
        raise Violation('omen_guesser_disagrees', f"ngram/alphabet: guesser {og['ngram']} {og['alphabet'][:8]}, trainer {n} {list(r.program_info['alphabet'])[:8]}", case)
    if dict(sc.omen.ip) != t_ip or dict(sc.omen.cp) != t_cp or list(sc.omen.ln[1:]) != t_ln:
        raise Violation('omen_scorer_disagrees', f'scorer OMEN tables differ from the trainer: ip {list(set(sc.omen.ip.items()) ^ set(t_ip.items()))[:3]} '
                        f'cp {list(set(sc.omen.cp.items()) ^ set(t_cp.items()))[:3]} ln {sc.omen.ln[1:] != t_ln}', case)
    if t_cp and sc.omen.ngram != n:
        raise Violation('omen_scorer_disagrees', f'scorer n-gram size {sc.omen.ngram}, trainer {n}', case)
    # ---- config lists == directory listings
    cfg = configparser.ConfigParser()
    cfg.read(os.path.join(out, 'config.ini'))
    for section, folder in (('BASE_A', 'Alpha'), ('CAPITALIZATION', 'Capitalization'), ('BASE_D', 'Digits'), ('BASE_O', 'Other'), ('BASE_K', 'Keyboard'),
                            ('BASE_Y', 'Years'), ('BASE_X', 'Context')):
        listed = json.loads(cfg.get(section, 'filenames'))
        on_disk = sorted(os.listdir(os.path.join(out, folder)))
        if sorted(listed) != on_disk or len(set(listed)) != len(listed):
            raise Violation('config_file_list', f'config.ini [{section}] lists {sorted(listed)}, {folder}/ contains {on_disk}', case)
    cls = ['enc_' + enc] + (['hex_lines_in_training_file'] if case.get('raw_lines') else [])
    if any(ord(ch) > 127 for k in t_cp for ch in k):
        cls.append('non_ascii_ngrams')
    rec.case({'encoding': enc, 'entries': case['entries'][:5], 'length_files': n_len_files}, nonascii or n_len_files >= 3, cls, key=case)


@st.composite
def cases(draw):
    from .c03 import in_domain
    enc = draw(st.sampled_from(['utf-8', 'utf-8', 'ascii', 'latin-1', 'cp1251', 'cp1252', 'latin-1', 'cp1251', 'iso-8859-15', 'iso-8859-2', 'koi8-r', 'utf-8-sig']))
    n = draw(st.integers(1, 14))
    entries, seen = [], set()
    from .c19 import valid_password, encodable
    for _ in range(n):
        p = draw(pwgen.password(max_frags=3))
        if p in seen or not (valid_password(p) and encodable(p, enc)) or len(p) > 30:
            continue
        seen.add(p)
        entries.append([p, draw(st.sampled_from([1, 1, 2, 3, 5, 6]))])
    base = [['password1', 6], ['Monkey12', 5], ['iloveyou', 5], ['love2019!', 2], [' lead trail ', 2]]
    if enc in ('utf-8', 'cp1251', 'utf-8-sig'):
        base += [['Пароль12', 3], ['привет!', 2]]
    if enc in ('utf-8', 'latin-1', 'cp1252', 'utf-8-sig'):
        base += [['Mañana#1', 2], ['straße99', 2], ['café§', 1]]
    if enc == 'iso-8859-15':
        base += [['100\u20ac', 2], ['c\u0153ur1', 2], ['\u0160koda12', 1]]
    if enc == 'iso-8859-2':
        base += [['\u017e\u00e1ba12', 2]]
    if enc == 'koi8-r':
        base += [['\u043f\u0430\u0440\u043e\u043b\u044c1', 2]]
    entries += [e for e in base if e[0] not in seen]
    raw = []
    for _ in range(draw(st.integers(0, 4))):
        inner = draw(st.sampled_from(['line\nfeed', 'ta\tb', '\n', 'a\x1cb', 'x\r\ny', 'ok1234', 'pass word', ' lead', '', 'nul\x00', 'del\x7f!']))
        raw.append((b'$HEX[' + inner.encode('ascii').hex().encode('ascii') + b']').hex())
    if enc == 'utf-8' and draw(st.booleans()):
        raw.append((b'$HEX[' + 'ls\u2028x'.encode('utf-8').hex().encode('ascii') + b']').hex())
        raw.append((b'$HEX[' + 'ps\u2029x'.encode('utf-8').hex().encode('ascii') + b']').hex())
        raw.append((b'$HEX[' + 'nel\u0085x'.encode('utf-8').hex().encode('ascii') + b']').hex())
    if draw(st.booleans()):
        # the same refusable characters as the training encoding itself spells them (byte 0x85 is U+0085 in the iso-8859 code pages,
        # C07-r17), as a raw line and as $HEX[]
        for ch in ('\u0085', '\u2028', '\u2029', '\x1c'):
            try:
                b = ('pa' + ch + 'ss12').encode('utf-8' if enc == 'utf-8-sig' else enc)
            except (UnicodeError, LookupError):
                continue
            raw.append((b'$HEX[' + b.hex().encode('ascii') + b']').hex())
            if ch == '\u0085':
                raw.append(b.hex())
    return {'entries': entries, 'encoding': enc, 'raw_lines': raw, 'coverage': draw(st.sampled_from([0.6, 0.3, 1, 0])),
            'ngram': draw(st.sampled_from([2, 3, 4])), 'alphabet_size': draw(st.sampled_from([100, 30, 10])), 'previous_training': draw(st.integers(0, 2)) == 0,
            'file_style': draw(S.file_styles()) if draw(st.integers(0, 2)) == 0 else None}


def run_trained(rec, seed, shard, nshards, tier):
    n = {'quick': 40, 'thorough': 1200}[tier]
    core.hyp_run(rec, prop, cases(), n, seed)


def run_large(rec, seed, shard, nshards, tier):
    """Scale: files with more than 1000 / 2000 / 5000 lines through the real writer and both real loaders."""
    from .c03 import word
    for n in ({'quick': [999, 1000, 1001, 2001, 40001], 'thorough': [999, 1000, 1001, 1999, 2000, 2001, 4097, 10001, 40001, 70001, 160001]}[tier]):   # the largest: a list of more than 4 MiB
        vals = [word(i + 3, 6) for i in range(n)]
        case = {'values_count': n, 'encoding': 'utf-8'}
        bad = find_bad(vals, 'utf-8', case)
        rec.case({'lines': n}, True, ['large_file'], key=['large', n])
        if bad:
            raise Violation('value_round_trip', f'a list of {n} values is not read back unchanged: {bad[:4]}', {'values': bad[:50], 'encoding': 'utf-8', 'lines': n})
        if n > 30000:
            # the same size again with every line exactly 32 bytes long (value, tab, probability, newline): every power-of-two
            # block or buffer boundary up to the file size falls on the end of a line - for readers that work block-wise
            vlen = 32 - 2 - len(repr(1 / n))
            if 4 <= vlen <= 12:
                vals = [word(i + 3, vlen) for i in range(n)]
                bad = find_bad(vals, 'utf-8', dict(case, aligned=True))
                rec.case({'lines': n, 'line_bytes': 32}, True, ['large_file_lines_of_32_bytes'], key=['large_aligned', n])
                if bad:
                    raise Violation('value_round_trip', f'a list of {n} values (every line 32 bytes) is not read back unchanged: {bad[:4]}',
                                    {'values': bad[:50], 'encoding': 'utf-8', 'lines': n})


# ---------------------------------------------------------------- numeric shapes of the probability column
def prop_shapes(case, rec):
    """A terminal list whose counts give probabilities of awkward shapes (differences of 1e-16 and less, 17-digit and
    exponent spellings, 1.0, exact ties): both loaders must return count/total for every value, the guesser must group
    exactly the equal ones."""
    from lib_trainer.save_pcfg_data import calculate_and_save_counter
    from lib_guesser.grammar_io import _load_from_file as gload
    from lib_scorer.grammar_io import _load_from_file as sload
    path = os.path.join(_dir(), 'shape.txt')
    cnt = Counter({v: c for v, c in case['counts']})
    total = sum(cnt.values())
    with core.quiet():
        if not guard(case, calculate_and_save_counter, path, cnt, 'utf-8'):
            raise Violation('writer_failed', 'calculate_and_save_counter returned False', case)
        section, sc = [], Counter()
        g_ok = guard(case, gload, section, path, 'utf-8')
        s_ok = guard(case, sload, sc, path, 'utf-8')
    want = {v: c / total for v, c in cnt.items()}
    got_g = {x: grp['prob'] for grp in section for x in grp['values']}
    gaps = sorted(set(want.values()))
    close = any(0 < b - a < 3e-16 for a, b in zip(gaps, gaps[1:]))
    rec.case({'counts': case['counts'][:6], 'total': total}, close or len(set(want.values())) < len(want),
             ['prob_shapes'] + (['distinct_probabilities_closer_than_3e-16'] if close else []) + (['exact_ties'] if len(set(want.values())) < len(want) else []), key=case)
    if got_g != want or dict(sc) != want or not g_ok or not s_ok:
        diff = {k: (got_g.get(k), dict(sc).get(k), want.get(k)) for k in want if got_g.get(k) != want[k] or dict(sc).get(k) != want[k]}
        raise Violation('value_round_trip', f'probabilities read back differ (value: guesser, scorer, written): {dict(list(diff.items())[:4])}', case)
    for grp in section:
        if len({want[x] for x in grp['values']}) != 1:
            raise Violation('group_mixes_probabilities', f'the guesser put values of different probabilities into one group: '
                            f'{[(x, want[x]) for x in grp["values"]][:5]}', case)
    groups_of = {}
    for i, grp in enumerate(section):
        for x in grp['values']:
            groups_of.setdefault(want[x], set()).add(i)
    if any(len(g_) > 1 for g_ in groups_of.values()):
        raise Violation('equal_probabilities_split', f'values of one probability are spread over several groups: {[(p_, sorted(g_)) for p_, g_ in groups_of.items() if len(g_) > 1][:3]}', case)


@st.composite
def shape_cases(draw):
    big = draw(st.sampled_from([0, 0, 997, 10 ** 6 + 3, 4503599627370497, 9 * 10 ** 15, 10 ** 18, 2 ** 60]))
    names = ['a', 'b', 'c', 'd', 'e', 'f', 'g', 'h']
    k = draw(st.integers(1, 7))
    counts = [[names[i], draw(st.sampled_from([1, 1, 2, 3, 4, 5, 7, 10, 99, 100000]))] for i in range(k)]
    if big:
        counts.append(['zz', big])
    if draw(st.integers(0, 3)) == 0:
        # two counts whose probabilities differ by one part in 1e10 .. 1e15 (a RELATIVE near-tie: they are different values)
        n0 = draw(st.sampled_from([10 ** 10, 10 ** 12, 3 * 10 ** 15]))
        counts += [['near1', n0], ['near2', n0 - 1]]
    return {'counts': counts}


def run_shapes(rec, seed, shard, nshards, tier):
    n = {'quick': 300, 'thorough': 20000}[tier]
    core.hyp_run(rec, prop_shapes, shape_cases(), n, seed)


def run_large_trained(rec, seed, shard, nshards, tier):
    """Scale: a training list of 42 000 distinct passwords (more than 32 768 rows in the OMEN tables and in one Alpha list) through
    the real trainer and all loaders."""
    import itertools
    abc = 'abcdefghijklmnopqrstuvwxyz0123456789'
    words = [''.join(t) for t in itertools.islice(itertools.product(abc, repeat=4), 0, 36 ** 4, 39)][:42000]
    case = {'entries': [[w, 1] for w in words] + [['password1', 6], ['Monkey12', 5], ['iloveyou', 5], ['love2019!', 2]], 'encoding': 'utf-8',
            'raw_lines': [], 'coverage': 0.6, 'ngram': 4, 'alphabet_size': 100, 'previous_training': False, 'file_style': None}
    rec.cls('training_list_of_42000_distinct_passwords')
    prop(case, rec)


PARTS = [
    Part('large_trained_list', run_large_trained, replay_values, {'quick': 1, 'thorough': 1}),
    Part('probability_shapes', run_shapes, prop_shapes, {'quick': 2, 'thorough': 8}),
    Part('large_files', run_large, replay_values, {'quick': 1, 'thorough': 1}),
    Part('exhaustive_code_points', run_sweep, replay_values, {'quick': 16, 'thorough': 16}),
    Part('trained_rulesets_all_loaders', run_trained, replay_values, {'quick': 8, 'thorough': 16}),
]
