"""C08 - resuming a saved session loses nothing, keeps the order, emits nothing above the saved position and
repeats at most the pre-terminals tied with the saved probability; a session with another UUID is refused."""
import os
from collections import Counter

from hypothesis import strategies as st

from .. import core, rsmodel, session, strategies as S
from ..core import Part, Violation, guard

RULE = ("(Part deep_restore: two lists of 600-1500 distinct probabilities, the real PcfgQueue interrupted where the index sum of the deepest pre-terminal above the saved position reaches 900 / 1000 / 1100 / max, restored under a fresh interpreter's recursion limit and drained: multiset and order as below.) Hypothesis-generated synthetic rulesets without Markov (tie-heavy probability pools emphasised) run through the real "
        "pcfg_guesser.main() in-process: an explicit 'q' is delivered by the harness-owned keyboard so that it is noticed right "
        "after the k-th pop, the real .sav is written, and a second real main() --load resumes. EVERY cut k=1..|U| of each "
        "ruleset is tried (exhaustive per ruleset); a second part generates histories of up to 5 quit/resume cycles; a third part runs quit histories on rulesets WITH Markov levels through the shared history oracle; a fourth checks the UUID refusal. "
        "Non-trivial = the cut leaves an un-emitted node that has >=2 parents, or another pre-terminal ties with the saved "
        "probability; distinct = hash of (model, flags, cut or cut list).")
ASSUMPTIONS = ["the quit is an explicit 'q' line; it is noticed at the next pre-terminal boundary (C12 covers other stdin events)",
               "the every_cut / multi_cycle parts use rulesets without Markov; the markov_rulesets part reuses C15's history oracle for rulesets with Markov levels",
               "a quit requested after the last pre-terminal was popped is not an interruption (the run has completed)"]

_ROOT = None


def _root():
    global _ROOT
    if _ROOT is None or not os.path.isdir(_ROOT):
        _ROOT = session.make_root('c08')
    return _ROOT


def flags_argv(flags):
    a = []
    if flags.get('skip_brute'):
        a.append('--skip_brute')
    if flags.get('skip_case'):
        a.append('--all_lower')
    return a


def uninterrupted(case, root, flags):
    r = guard(case, session.run_main, root, ['-r', 'T', '-s', 'u'] + flags_argv(flags))
    return r


def check_resume(case, U, A, B, saved, label):
    """U: full (pt,prob) list; A: pops emitted before the quit; B: pops of the resumed run."""
    bprobs = [p for _, p in B]
    for i in range(len(bprobs) - 1):
        if not bprobs[i] >= bprobs[i + 1]:
            raise Violation('resume_order', f'{label}: resumed run not in non-increasing order at #{i + 1}: {B[i]} then {B[i + 1]}', case)
    if B and bprobs[0] > saved:
        raise Violation('above_saved', f'{label}: resumed run emits {B[0]} above the saved position {saved!r}', case)
    k = len(A)
    rest = Counter(U[k:])
    got = Counter(B)
    missing = rest - got
    if missing:
        raise Violation('lost', f'{label}: resumed run never emits {list(missing.items())[:5]} (cut after {k} pre-terminals, saved {saved!r})', case)
    extra = got - rest
    ina = Counter(A)
    for (pt, prob), c in extra.items():
        if prob != saved or ina[(pt, prob)] < c:
            raise Violation('repeat_not_tied', f'{label}: pre-terminal {pt} prob {prob!r} emitted {c} extra time(s); only pre-terminals '
                            f'with the saved probability {saved!r} that were emitted before may repeat', case)


def structure_nontrivial(U, k, vs):
    saved = U[k - 1][1] if k - 1 < len(U) else None
    tie = sum(1 for _, p in U if p == saved) >= 2
    multi = any(sum(1 for _, i in pt if i > 0) >= 2 for pt, _ in U[k - 1:])
    return tie, multi


def prop_cuts(case, rec):
    m, flags = case['model'], case['flags']
    root = _root()
    rsmodel.write_ruleset(os.path.join(root, 'Rules', 'T'), m)
    u = uninterrupted(case, root, flags)
    U = u.pops
    if not U:
        rec.skip('empty_language')
        return
    vs, base = rsmodel.effective(m, flags['skip_brute'], flags['skip_case'])
    ks = case.get('cuts') or list(range(1, len(U) + 1))
    for k in ks:
        if k > len(U):
            continue
        a = guard(case, session.run_main, root, ['-r', 'T', '-s', 's'] + flags_argv(flags), [(('before_pop', k), 'q')])
        A = a.pops[:-1] if len(a.pops) == k else None
        sub = dict(case, cuts=[k])
        if A is None or A != U[:k - 1]:
            raise Violation('quit_not_at_boundary', f'quit before pop {k}: emitted pops {a.pops} vs uninterrupted prefix {U[:k]}', sub)
        if a.lines != u.lines[:len(a.lines)] or len(a.lines) != sum(1 for g in u.guess_pop if g <= k - 1):
            raise Violation('quit_stream', f'quit before pop {k}: stdout is not the prefix that ends at the pre-terminal boundary', sub)
        if not a.sav or 'guessing_info' not in a.sav or 'max_probability' not in a.sav['guessing_info']:
            raise Violation('no_save', f'quit before pop {k}: no usable save file written ({a.sav})', sub)
        saved = float(a.sav['guessing_info']['max_probability'])
        if saved != U[k - 1][1]:
            raise Violation('saved_position', f'quit noticed at pop {k} (prob {U[k - 1][1]!r}) but saved max_probability is {saved!r}', sub)
        b = guard(sub, session.run_main, root, ['-r', 'T', '-s', 's', '--load'])
        tie, multi = structure_nontrivial(U, k, vs)
        cls = S.describe(m)
        if tie:
            cls.append('tie_at_saved')
        if multi:
            cls.append('unemitted_multi_parent')
        rec.case({'cut': k, 'U': len(U), 'saved': saved, 'resumed': len(b.pops)}, tie or multi, cls, key=[m, flags, k])
        check_resume(sub, U, A, b.pops, saved, f'cut {k}')
        # guesses of the resumed run: every guess of the remaining pre-terminals is written
        want = Counter(l for l, g in zip(u.lines, u.guess_pop) if g >= k)
        have = Counter(b.lines)
        if want - have:
            raise Violation('lost_guesses', f'cut {k}: guesses never written after resume: {list((want - have).items())[:5]}', sub)


@st.composite
def cases(draw, max_pt):
    fams = ['dyadic', 'dyadic', 'dyadic', 'tenths', 'count', 'tiny', 'mixed']
    m = draw(S.rulesets(max_pt=max_pt, markov='no', families=fams, max_structs=3))
    flags = {'skip_brute': False, 'skip_case': draw(st.integers(0, 5)) == 0}
    return {'model': m, 'flags': flags}


def run_cuts(rec, seed, shard, nshards, tier):
    n = {'quick': 40, 'thorough': 400}[tier]
    core.hyp_run(rec, prop_cuts, cases(40 if tier == 'quick' else 90), n, seed, shrink=True)


# ---------------------------------------------------------------- multi-cycle histories
def prop_cycles(case, rec):
    m, flags, cuts = case['model'], case['flags'], case['cycle_cuts']
    root = _root()
    rsmodel.write_ruleset(os.path.join(root, 'Rules', 'T'), m)
    u = uninterrupted(case, root, flags)
    U = u.pops
    if not U:
        rec.skip('empty_language')
        return
    mult = Counter(U)
    emitted = Counter()
    saved_positions = []
    runs = []
    load = []
    finished = False
    for ci, k in enumerate(list(cuts) + [None]):
        ev = [(('before_pop', k), 'q')] if k is not None else []
        r = guard(case, session.run_main, root, ['-r', 'T', '-s', 'c'] + (load or flags_argv(flags)), ev)
        quit_noticed = k is not None and len(r.pops) == k
        seq = r.pops[:-1] if quit_noticed else r.pops
        probs = [p for _, p in seq]
        for i in range(len(probs) - 1):
            if not probs[i] >= probs[i + 1]:
                raise Violation('cycle_order', f'run {ci}: not non-increasing at #{i + 1}', case)
        if saved_positions and seq and probs[0] > saved_positions[-1]:
            raise Violation('above_saved', f'run {ci}: emits {seq[0]} above the saved position {saved_positions[-1]!r}', case)
        emitted.update(seq)
        runs.append(len(seq))
        load = ['--load']
        if not quit_noticed:
            finished = True
            break
        sp = float(r.sav['guessing_info']['max_probability'])
        if sp != r.pops[-1][1]:
            raise Violation('saved_position', f'run {ci}: quit noticed at prob {r.pops[-1][1]!r} but saved {sp!r}', case)
        saved_positions.append(sp)
    if not finished:
        raise core.HarnessError('history did not finish')
    ties = any(sum(1 for _, p in U if p == s) >= 2 for s in saved_positions)
    rec.case({'cuts': cuts, 'runs': runs, 'U': len(U), 'saved_positions': saved_positions}, len(saved_positions) >= 2 and ties,
             S.describe(m) + [f'cycles:{len(saved_positions)}'] + (['tie_at_saved'] if ties else []))
    for key, c in mult.items():
        if emitted[key] < c:
            raise Violation('lost', f'pre-terminal {key} emitted {emitted[key]} time(s) over the whole history, expected at least {c}; '
                            f'runs {runs}, saved positions {saved_positions}', case)
    for key, c in emitted.items():
        if key not in mult:
            raise Violation('unknown', f'pre-terminal {key} is not in the uninterrupted run', case)
        if c > mult[key] and key[1] not in saved_positions:
            raise Violation('repeat_not_tied', f'pre-terminal {key} emitted {c} times (multiplicity {mult[key]}) but its probability is '
                            f'none of the saved positions {saved_positions}', case)


@st.composite
def cycle_cases(draw, max_pt):
    c = draw(cases(max_pt))
    n = draw(st.integers(1, 5))
    c['cycle_cuts'] = [draw(st.integers(1, 12)) for _ in range(n)]
    return c


def run_cycles(rec, seed, shard, nshards, tier):
    n = {'quick': 150, 'thorough': 2500}[tier]
    core.hyp_run(rec, prop_cycles, cycle_cases(40 if tier == 'quick' else 120), n, seed)


# ---------------------------------------------------------------- UUID refusal
def prop_uuid(case, rec):
    m, k = case['model'], case['cut']
    root = _root()
    rd = os.path.join(root, 'Rules', 'T')
    rsmodel.write_ruleset(rd, m)
    u = uninterrupted(case, root, {})
    if len(u.pops) < 2:
        rec.skip('too_small')
        return
    k = 1 + (k % len(u.pops))
    a = guard(case, session.run_main, root, ['-r', 'T', '-s', 'x'], [(('before_pop', k), 'q')])
    m2 = dict(m, uuid=case['other_uuid'])
    rsmodel.write_ruleset(rd, m2)
    b = guard(case, session.run_main, root, ['-r', 'T', '-s', 'x', '--load'])
    same = case['other_uuid'] == m['uuid']
    rec.case({'uuid': m['uuid'], 'other': case['other_uuid'], 'cut': k}, not same, ['uuid_same' if same else 'uuid_differs'] + (['uuid_empty_or_falsy_text'] if m['uuid'] in ('', '0', 'None', 'False') or case['other_uuid'] in ('', '0') else []),
             key=[m, k, case['other_uuid']])
    if not same:
        if b.lines:
            raise Violation('uuid_not_refused', f"session saved for uuid {m['uuid']!r} resumed on a ruleset with uuid {case['other_uuid']!r}: "
                            f'{len(b.lines)} guesses written', case)
        if 'UUID' not in b.stderr:
            raise Violation('uuid_no_message', 'resume refused silently (no UUID message on stderr)', case)
    else:
        if not b.lines and len(u.lines) > len(a.lines):
            raise Violation('uuid_false_refusal', 'resume with the same UUID produced nothing', case)


@st.composite
def uuid_cases(draw):
    m = draw(S.rulesets(max_pt=30, markov='no', max_structs=2))
    if draw(st.integers(0, 3)) == 0:
        # identifiers of hand-made rulesets: empty, or text that reads as "nothing" in Python
        m['uuid'] = draw(st.sampled_from(['', '', '0', 'None', 'False']))
    other = draw(st.sampled_from(['uuid-0', 'uuid-1', 'zzz', m['uuid'], m['uuid'] + 'x', m['uuid'].upper(), m['uuid'][:-1], '', '0']))
    return {'model': m, 'cut': draw(st.integers(0, 20)), 'other_uuid': other}


def run_uuid(rec, seed, shard, nshards, tier):
    n = {'quick': 40, 'thorough': 400}[tier]
    core.hyp_run(rec, prop_uuid, uuid_cases(), n, seed)


# ---------------------------------------------------------------- the consumer of stdout goes away, then --load
def prop_gone(case, rec):
    """The reader of stdout disappears after k lines (pcfg_guesser.py | head -k, a cracker that exits): whatever the tool does
    then, a later --load must not lose anything the consumer had not received (repeats are what the documentation promises)."""
    m, k = case['model'], case['lines']
    root = _root()
    rsmodel.write_ruleset(os.path.join(root, 'Rules', 'T'), m)
    u = uninterrupted(case, root, {})
    if len(u.lines) < 2:
        rec.skip('too_small')
        return
    k = k % len(u.lines)
    for ext in ('.sav', '.omn'):
        if os.path.exists(os.path.join(root, 'g' + ext)):
            os.remove(os.path.join(root, 'g' + ext))
    a = guard(case, session.run_main, root, ['-r', 'T', '-s', 'g'], stdout_fail_after=k)
    b = guard(case, session.run_main, root, ['-r', 'T', '-s', 'g', '--load'])
    received = a.lines[:k]
    rec.case({'lines_before_consumer_left': k, 'U': len(u.lines), 'resumed': len(b.lines)}, 0 < k < len(u.lines) - 1, ['stdout_consumer_gone_then_load'], key=[m, k])
    if received != u.lines[:len(received)]:
        raise Violation('gone_prefix', f'what the consumer received before it left is not the start of the stream: {received[:5]} vs {u.lines[:5]}', case)
    missing = Counter(u.lines) - (Counter(received) + Counter(b.lines))
    if missing:
        raise Violation('lost_guesses', f'consumer left after {k} lines, then --load: guesses neither received before nor written after: {list(missing.items())[:5]} '
                        f'(resumed run starts with {b.lines[:3]}; save file {a.sav and a.sav.get("guessing_info")})', case)
    foreign = set(b.lines) - set(u.lines)
    if foreign:
        raise Violation('gone_foreign', f'resumed run writes lines that are not guesses of the ruleset: {sorted(foreign)[:5]}', case)


@st.composite
def gone_cases(draw):
    m = draw(S.rulesets(max_pt=30, markov=draw(st.sampled_from(['no', 'yes'])), max_structs=3, rich_levels=True))
    return {'model': m, 'lines': draw(st.integers(0, 40))}


def run_gone(rec, seed, shard, nshards, tier):
    n = {'quick': 40, 'thorough': 600}[tier]
    core.hyp_run(rec, prop_gone, gone_cases(), n, seed)


# ---------------------------------------------------------------- deep sessions: long transition lists, late interruption
def prop_deep(case, rec):
    """One base structure over two long lists of distinct probabilities; the queue (real PcfgQueue, real update_save_config /
    restore) is interrupted after `cut` pre-terminals, far enough for index sums above 1000, restored and drained."""
    import configparser
    from .. import guesser
    na, nb, ra, rb = case['na'], case['nb'], case['ra'], case['rb']
    wa = len(str(na))
    va = [[0.5 * ra ** i, [str(i).zfill(wa)]] for i in range(na)]
    vb = [[0.5 * rb ** j, ['!' + chr(0x4e00 + j)]] for j in range(nb)]
    m = {'encoding': 'utf-8', 'uuid': 'c08-deep', 'vars': {'D%d' % wa: va, 'O2': vb}, 'base': [['D%dO2' % wa, 1.0]], 'm_levels': []}
    rd = os.path.join(_root(), 'Rules', 'Deep')
    rsmodel.write_ruleset(rd, m)
    g = guard(case, guesser.load, rd)
    q = guesser.new_queue(g)
    full = []
    while True:
        it = guard(case, q.next)
        if it is None:
            break
        full.append((tuple(it['pt']), it['prob']))
    if len(full) != na * nb:
        raise Violation('uninterrupted_incomplete', f'uninterrupted queue emitted {len(full)} of {na * nb} pre-terminals', case)
    cuts = list(case['cuts'])
    if not case.get('exact_cuts'):
        # interruption points right after the first pre-terminal whose index sum reaches 900 / 1000 / 1100 / the maximum
        for th in (900, 1000, 1100, 1300, na + nb - 2):
            k = next((i for i, (pt, p) in enumerate(full) if sum(ix for _, ix in pt) >= th), None)
            if k is not None:
                cuts.append(k + 1)
    for cut in sorted(set(cuts)):
        cut = max(1, min(cut, len(full) - 1))
        q = guesser.new_queue(g)
        for _ in range(cut + 1):            # the (cut+1)-th item is popped when the quit is noticed: its probability is saved
            it = q.next()
        sc = configparser.ConfigParser()
        sc.add_section('guessing_info')
        q.update_save_config(sc)
        sp = sc.getfloat('guessing_info', 'max_probability')
        # a fresh interpreter's recursion limit, as pcfg_guesser.py --load would start with (Hypothesis raises it for its own use)
        import sys
        old_limit = sys.getrecursionlimit()
        sys.setrecursionlimit(1000)
        try:
            g2 = guard(case, guesser.load, rd)
            q2 = guard(case, guesser.new_queue, g2, sc)
            got = []
            while True:
                it = guard(case, q2.next)
                if it is None:
                    break
                got.append((tuple(it['pt']), it['prob']))
        finally:
            sys.setrecursionlimit(max(old_limit, 1000))
        depth = max(sum(i for _, i in pt) for pt, p in full[:cut + 1])
        rec.case({'lists': [na, nb], 'cut': cut, 'deepest_index_sum_above_saved_position': depth, 'resumed': len(got)}, depth >= 900,
                 ['deep_index_sum_%d' % (depth // 500 * 500)], key=[na, nb, ra, rb, cut])
        want = Counter(pt for pt, p in full if p <= sp)
        have = Counter(pt for pt, p in got)
        sub = dict(case, cuts=[cut], exact_cuts=True)
        if want - have:
            raise Violation('lost', f'cut {cut} (saved position {sp!r}, deepest index sum {depth}): the restored queue never emits '
                            f'{sum((want - have).values())} of {sum(want.values())} pre-terminals, e.g. {list((want - have))[:3]}', sub)
        if have - want:
            raise Violation('extra', f'cut {cut}: the restored queue emits pre-terminals above the saved position or twice: {list((have - want).items())[:3]}', sub)
        for a, b in zip(got, got[1:]):
            if b[1] > a[1]:
                raise Violation('order_after_resume', f'cut {cut}: {b} after {a}', sub)


@st.composite
def deep_cases(draw, tier):
    if tier == 'quick':
        na, nb = draw(st.sampled_from([(1000, 110), (1000, 13)]))
    else:
        na, nb = draw(st.sampled_from([(1000, 130), (600, 400), (1500, 60), (1000, 13)]))
    ra = draw(st.sampled_from([0.999, 0.9995, 0.99]))
    rb = draw(st.sampled_from([0.5, 0.7, 0.25]))
    total = na * nb
    cuts = sorted({draw(st.integers(1, total - 1)) for _ in range(2)} | {total - draw(st.integers(1, na)), total * 3 // 4})
    if tier == 'quick':
        cuts = cuts[-1:]
    return {'na': na, 'nb': nb, 'ra': ra, 'rb': rb, 'cuts': cuts}


def run_deep(rec, seed, shard, nshards, tier):
    n = {'quick': 2, 'thorough': 3}[tier]
    core.hyp_run(rec, prop_deep, deep_cases(tier), n, seed, shrink=False)


# committed regression (finding F8): 2x2 grid, quit noticed at the 3rd pop
F8_CASE = {'model': {'encoding': 'utf-8', 'uuid': 'f8', 'vars': {'D1': [[0.6, ['1']], [0.4, ['2']]], 'O1': [[0.7, ['!']], [0.3, ['?']]]},
                     'base': [['D1O1', 1.0]], 'm_levels': []},
           'flags': {'skip_brute': False, 'skip_case': False}}


def run_regress(rec, seed, shard, nshards, tier):
    prop_cuts(F8_CASE, rec)


def run_markov(rec, seed, shard, nshards, tier):
    """Rulesets WITH Markov levels: quits inside and outside the levels, judged by the shared history oracle (every pre-terminal
    of the uninterrupted run is emitted over the whole history, only saved-position ties repeat). C15 owns the details of the
    mid-level remainder; here the point is that nothing after it is lost."""
    from . import c15
    n = {'quick': 60, 'thorough': 1200}[tier]
    core.hyp_run(rec, c15.prop_hist, c15.hist_cases(), n, seed)


def replay_markov(case, rec):
    from . import c15
    return c15.prop_hist(case, rec)


PARTS = [
    Part('markov_rulesets', run_markov, replay_markov, {'quick': 4, 'thorough': 8}),
    Part('regression_f8', run_regress, prop_cuts, {'quick': 1, 'thorough': 1}),
    Part('every_cut', run_cuts, prop_cuts, {'quick': 8, 'thorough': 16}),
    Part('multi_cycle', run_cycles, prop_cycles, {'quick': 6, 'thorough': 16}),
    Part('uuid', run_uuid, prop_uuid, {'quick': 1, 'thorough': 4}),
    Part('deep_restore', run_deep, prop_deep, {'quick': 2, 'thorough': 8}),
    Part('consumer_gone_then_load', run_gone, prop_gone, {'quick': 3, 'thorough': 8}),
]
