"""C16 - honeywords / random walk: every word is in the non-Markov language, exactly N words for --limit N, each
derivation is drawn with its probability, and random_walk mode is reproducible."""
import math
import os
import subprocess
import sys
import types
from collections import Counter
from fractions import Fraction

from hypothesis import strategies as st

from .. import core, rsmodel, session, strategies as S
from ..core import Part, Violation, guard

RULE = ("Hypothesis-generated count-normalised rulesets, with and without --skip_brute / --all_lower (plus a separately counted class whose base-structure list is "
        "sub-normalised, as edit_rules or skip_brute leave it). The uniform draws seen by the sampler are scripted: for the base "
        "structure and for every position the draw is swept over 0.0, every breakpoint (exact cumulative sum) +-{0, 1 ulp, "
        "1e-13}, every interval mid-point and 1-2^-53, and the selected structure / group must be the interval containing the "
        "draw (either neighbour within 1e-12 of a breakpoint) - the sampler is piecewise constant, so this pins every "
        "derivation's probability; where a draw lies above the (float) total of a list the walk must select the same group after a walk through the last groups as after a walk through the first groups (samples are independent); the in-group choice is scripted over every index. End-to-end: HoneywordSession.run(limit=N) "
        "must print exactly N words (N up to 2500, also on Markov-heavy grammars) of the model's non-Markov language in both modes; random_walk twice (and as CLI "
        "subprocesses, also with --load after an earlier cracking session of another ruleset / --all_lower left its save file, and for a ruleset that lists one value twice in a group) must be identical. Non-trivial = >=2 base structures and a group of >=2 values; distinct = hash of model. Scale part many_base_structures: base lists of 3000 / 12 000 structures, the base draw swept over break points deep in the list.")
ASSUMPTIONS = ["per variable the probabilities times group sizes add up to 1 (trainer output); the base list may add up to less than 1",
               "a separately counted class has one terminal list pruned by hand (sum < 1): there the covered part of the unit interval is pinned to its groups, and for draws above the total the only requirement is that the same draws select the same derivation whatever was walked before on the grammar object",
               "for a sub-normalised base list 'its probability' is read as proportional to the listed value"]

_DIR = None


def _dir():
    global _DIR
    if _DIR is None or not os.path.isdir(_DIR):
        _DIR = core.scratch_dir('c16')
    return _DIR


@st.composite
def normalised_var(draw, name):
    cap = S.capacity(name)
    ng = draw(st.integers(1, min(4, cap)))
    sizes = []
    left = cap
    for i in range(ng):
        s = draw(st.integers(1, max(1, min(3, left - (ng - i - 1)))))
        sizes.append(s)
        left -= s
    counts = sorted(draw(st.lists(st.integers(1, 40), min_size=ng, max_size=ng, unique=True)), reverse=True)
    total = sum(c * s for c, s in zip(counts, sizes))
    vals = draw(S.values_for(name, sum(sizes)))
    groups, k = [], 0
    for c, s in zip(counts, sizes):
        groups.append([c / total, vals[k:k + s]])
        k += s
    return groups


@st.composite
def norm_rulesets(draw):
    nv = draw(st.integers(1, 4))
    names = draw(st.lists(st.sampled_from(['A1', 'A2', 'A3', 'D1', 'D2', 'O1', 'K4', 'Y1', 'X1']), min_size=nv, max_size=nv, unique=True))
    vars_ = {}
    for nm in names:
        vars_[nm] = draw(normalised_var(nm))
        if nm[0] == 'A':
            vars_['C' + nm[1:]] = draw(normalised_var('C' + nm[1:]))
    ns = draw(st.integers(1, 5))
    structs = []
    for _ in range(ns):
        nt = draw(st.integers(1, 3))
        s = ''.join(draw(st.sampled_from(names)) for _ in range(nt))
        if s not in structs:
            structs.append(s)
    use_m = draw(st.integers(0, 2)) == 0
    if use_m:
        structs.append('M')
    counts = [draw(st.integers(1, 30)) for _ in structs]
    total = sum(counts)
    base = sorted([[s, c / total] for s, c in zip(structs, counts)], key=lambda x: -x[1])
    m = {'encoding': 'utf-8', 'uuid': 'c16', 'vars': vars_, 'base': base, 'm_levels': []}
    if use_m:
        m['omen'] = {'ngram': 2, 'alphabet': ['a', 'b'], 'ip': [[0, 'a'], [1, 'b']], 'ep': [[0, 'a'], [1, 'b']],
                     'cp': [[0, 'aa'], [1, 'ab'], [0, 'ba'], [1, 'bb']], 'ln': [10, 0, 1] + [10] * 18}
        m['m_levels'] = [[1, 0.05], [2, 0.01]]
        m['keyspace'] = [[1, 3], [2, 4]]
    sub = draw(st.integers(0, 3)) == 0 and len(base) > 1
    if sub:
        # structures removed without renormalising (what edit_rules does)
        drop = draw(st.integers(0, len(base) - 1))
        if base[drop][0] != 'M':
            del base[drop]
    pruned = None
    if draw(st.integers(0, 3)) == 0:
        # one terminal list pruned by hand without renormalising: its groups cover only part of the unit interval
        cand = sorted(k for k, gs in vars_.items() if len(gs) >= 2)
        if cand:
            pruned = cand[draw(st.integers(0, len(cand) - 1))]
            del vars_[pruned][draw(st.integers(1, len(vars_[pruned]) - 1))]
    return {'model': m, 'subnormalised': sub, 'skip_brute': use_m and draw(st.booleans()), 'skip_case': draw(st.integers(0, 3)) == 0, 'pruned_variable': pruned}


def sweep(cum):
    """Draw values to try for a cumulative table (list of Fractions, last = total)."""
    total = cum[-1]
    us = {0.0, 1.0 - 2.0 ** -53, 0.5}
    prev = Fraction(0)
    for c in cum:
        f = float(c / total) if total else 0.0
        for x in (f, math.nextafter(f, 0.0), math.nextafter(f, 2.0), f - 1e-13, f + 1e-13):
            if 0.0 <= x < 1.0:
                us.add(x)
        mid = float((prev + c) / 2 / total) if total else 0.0
        if 0.0 <= mid < 1.0:
            us.add(mid)
        prev = c
    return sorted(us)


def expected_index(cum, target, tol=Fraction(1, 10 ** 12)):
    """Indices acceptable for a target (Fraction): the interval containing it, plus neighbours near a breakpoint."""
    ok = set()
    idx = next((i for i, c in enumerate(cum) if target <= c), None)
    if idx is not None:
        ok.add(idx)
    for i, c in enumerate(cum):
        if abs(target - c) <= tol * max(c, Fraction(1, 10 ** 30)) + Fraction(1, 10 ** 300):
            ok.add(i)
            if i + 1 < len(cum):
                ok.add(i + 1)
    return ok, idx


class Script:
    def __init__(self):
        self.draws = []
        self.choices = []
        self.seeds = []

    def random(self):
        return self.draws.pop(0) if self.draws else 0.0

    def choice(self, seq):
        i = self.choices.pop(0) if self.choices else 0
        return seq[i % len(seq)]

    def seed(self, x=None):
        self.seeds.append(x)

    def randint(self, a, b):
        return a


def prop_sampler(case, rec):
    from .. import guesser
    import lib_guesser.pcfg_grammar as pgm
    m = case['model']
    rdir = os.path.join(_dir(), 'R')
    rsmodel.write_ruleset(rdir, m)
    sb, sc = case['skip_brute'], case.get('skip_case', False)
    g = guard(case, guesser.load, rdir, skip_brute=sb, skip_case=sc)
    vs, base = rsmodel.effective(m, sb, sc)
    if not base:
        rec.skip('no_base')
        return
    script = Script()
    saved = pgm.random
    pgm.random = types.SimpleNamespace(random=script.random, choice=script.choice, seed=script.seed, randint=script.randint)
    try:
        bcum, acc = [], Fraction(0)
        for toks, bp, s in base:
            acc += Fraction(bp)
            bcum.append(acc)
        total = bcum[-1]
        ftotal = 0
        for toks, bp, s in base:
            ftotal += bp
        n_eval = 0
        # ---- base structure draw
        for u in sweep(bcum):
            script.draws[:] = [u] + [0.0] * 12
            pt = guard(case, g.random_walk)
            n_eval += 1
            toks = [t for t, _ in pt['pt']]
            if not toks:
                raise Violation('empty_parse_tree', f'base draw u={u!r}: random_walk selected no base structure (sum of base probabilities {float(total)!r})', case)
            target = Fraction(u) * total
            ok, idx = expected_index(bcum, target)
            # the tool scales by its own float total: allow the breakpoint neighbours computed with it too
            ok2, _ = expected_index(bcum, Fraction(u * ftotal))
            got = [i for i, (tk, bp, s) in enumerate(base) if tk == toks]
            if not (set(got) & (ok | ok2)):
                raise Violation('base_selection', f'base draw u={u!r}: selected structure {toks} (index {got}), expected index {sorted(ok)} '
                                f'(cumulative {[float(c / total) for c in bcum]})', case)
        # ---- per position draw (one structure per distinct variable position)
        seen = set()
        for bi, (toks, bp, s) in enumerate(base):
            if toks[0] == 'M':
                continue
            lo = float((bcum[bi - 1] if bi else Fraction(0)) / total)
            hi = float(bcum[bi] / total)
            ub = (lo + hi) / 2
            for k, t in enumerate(toks):
                if (t, k if len(toks) > 1 else 0) in seen and len(seen) > 6:
                    continue
                seen.add((t, k if len(toks) > 1 else 0))
                vcum, acc = [], Fraction(0)
                for p, vals in vs[t]:
                    acc += Fraction(p) * len(vals)
                    vcum.append(acc)
                # break points as the tool sees them (absolute); a pruned list leaves the top of the unit interval uncovered
                for u in sweep([c / vcum[-1] * 1 for c in vcum] if vcum[-1] >= Fraction(999, 1000) else vcum + [Fraction(1)]):
                    script.draws[:] = [ub] + [0.0] * k + [u] + [0.0] * 12
                    pt = guard(case, g.random_walk)
                    n_eval += 1
                    if [x for x, _ in pt['pt']] != toks:
                        # the mid-point of the structure's interval must select it
                        raise Violation('base_selection', f'mid-point draw {ub!r} of structure #{bi} {toks} selected {[x for x, _ in pt["pt"]]}', case)
                    ok, idx = expected_index(vcum, Fraction(u))
                    if idx is None or Fraction(u) >= vcum[-1] * (1 - Fraction(1, 10 ** 12)):
                        # at or above the total up to rounding (the tool's left-to-right float sum can end one ulp below the
                        # draw, in which case it keeps group 0): a region of measure ~1e-16, any group is accepted there
                        ok = set(range(len(vcum)))
                    if len(ok) == len(vcum) and len(vcum) >= 2:
                        # in that region the walk may keep any group - but which one is decided by the draws alone, not by the walks
                        # that came before on this grammar object (independent samples; word k of a session is the word its
                        # seed gives): same draws after a walk through the LAST groups and after a walk through the FIRST groups
                        def mid_last(t2):
                            c2, a2 = [], Fraction(0)
                            for p2, v2 in vs[t2]:
                                a2 += Fraction(p2) * len(v2)
                                c2.append(a2)
                            return float(((c2[-2] if len(c2) > 1 else Fraction(0)) + c2[-1]) / 2)
                        res2 = []
                        for other in ([ub] + [mid_last(t2) for t2 in toks] + [0.0] * 12, [ub] + [0.0] * 24):
                            script.draws[:] = list(other)
                            guard(case, g.random_walk)
                            script.draws[:] = [ub] + [0.0] * k + [u] + [0.0] * 12
                            res2.append([list(x) for x in guard(case, g.random_walk)['pt']])
                            n_eval += 2
                        rec.cls('same_draws_after_different_walks')
                        if float(sum(p2 * len(v2) for p2, v2 in vs[t])) < u:
                            rec.cls('draw_above_the_total_of_the_groups')
                        if res2[0] != res2[1]:
                            raise Violation('walk_depends_on_history', f'structure {toks}, draws [{ub!r}, ..., position {k}: {u!r}]: after a walk through the last groups the walk '
                                            f'selects {res2[0]}, after a walk through the first groups {res2[1]} - the same draws must select the same derivation', case)
                    if pt['pt'][k][1] not in ok:
                        raise Violation('group_selection', f'structure {toks} position {k} ({t}) draw u={u!r}: selected group {pt["pt"][k][1]}, expected {sorted(ok)} '
                                        f'(cumulative {[float(c) for c in vcum]})', case)
                    # reported probability == product of the selected groups (base_prob is 1.0 by the tool's definition of a walk)
        # ---- in-group choice is uniform: scripting every index yields every value
        for bi, (toks, bp, s) in enumerate(base[:3]):
            if toks[0] == 'M':
                continue
            pt = [(t, 0) for t in toks]
            sizes = [len(vs[t][0][1]) for t in toks]
            if math.prod(sizes) > 40:
                continue
            import itertools
            want = Counter(rsmodel.expand(vs, tuple(pt)))
            have = Counter()
            for choice in itertools.product(*[range(n) for n in sizes]):
                script.choices[:] = list(choice)
                lines, cnt = guard(case, guesser.capture_guesses, g, pt, is_honeyword=True)
                n_eval += 1
                if cnt != 1 or len(lines) != 1:
                    raise Violation('honeyword_count', f'{pt}: one honeyword expected, got {lines} (reported {cnt})', case)
                have.update(lines)
            if want != have:
                raise Violation('in_group_choice', f'{pt}: scripting every in-group index gives {dict(have)}, expected each of {dict(want)} once', case)
    finally:
        pgm.random = saved
    multi = len(base) >= 2 and any(len(v) >= 2 for g_ in vs.values() for _, v in g_)
    cls = ['subnormalised_base' if case['subnormalised'] else 'normalised_base'] + (['skip_brute'] if sb else []) + (['skip_case'] if sc else []) + \
          (['pruned_terminal_list'] if case.get('pruned_variable') else []) + \
          (['markov_in_base'] if any(t[0][0] == 'M' for t, _, _ in base) else [])
    rec.case(case, multi, cls, n=n_eval)


# ---------------------------------------------------------------- scale: thousands of base structures
def prop_many_base(case, rec):
    """The base-structure draw over a list of `n` structures (real rulesets have > 10 000): the draw is swept over break points deep
    in the list, one ulp around them and interval mid-points; the selected structure must be the interval containing the draw."""
    from .. import guesser
    import lib_guesser.pcfg_grammar as pgm
    import itertools
    n, step = case['n'], case['step']
    names = ['D1', 'D2', 'D3', 'O1', 'O2', 'K4', 'Y1', 'X1']
    vals = {'D1': '1', 'D2': '11', 'D3': '111', 'O1': '!', 'O2': '!!', 'K4': 'qwer', 'Y1': '1999', 'X1': '#1'}
    structs = [''.join(t) for ln in (1, 2, 3, 4, 5) for t in itertools.product(names, repeat=ln)][:n]
    w = [1.0 / (i + 3) for i in range(len(structs))]
    tot = sum(w)
    m = {'encoding': 'utf-8', 'uuid': 'c16-many', 'vars': {k: [[1.0, [v]]] for k, v in vals.items()},
         'base': [[s_, x / tot] for s_, x in zip(structs, w)], 'm_levels': []}
    rdir = os.path.join(_dir(), 'MB')
    rsmodel.write_ruleset(rdir, m)
    g = guard(case, guesser.load, rdir)
    vs, base = rsmodel.effective(m, False, False)
    bcum, acc = [], Fraction(0)
    for toks, bp, s_ in base:
        acc += Fraction(bp)
        bcum.append(acc)
    total = bcum[-1]
    ftotal = 0
    for toks, bp, s_ in base:
        ftotal += bp
    import bisect
    tol = Fraction(1, 10 ** 12)

    def near(target):
        # expected_index() by bisection: the interval containing the target, plus the neighbours of a break point within 1e-12
        j0 = min(bisect.bisect_left(bcum, target), len(bcum) - 1)
        out = {j0}
        for j in (j0 - 1, j0, j0 + 1):
            if 0 <= j < len(bcum) and abs(target - bcum[j]) <= tol * bcum[j]:
                out.add(j)
                if j + 1 < len(bcum):
                    out.add(j + 1)
        return out

    script = Script()
    saved = pgm.random
    pgm.random = types.SimpleNamespace(random=script.random, choice=script.choice, seed=script.seed, randint=script.randint)
    n_eval = 0
    try:
        picks = sorted(set(list(range(0, len(base), step)) + [0, 1, 255, 256, 511, 512, 513, len(base) - 2, len(base) - 1]))
        for i in picks:
            if not 0 <= i < len(base):
                continue
            f = float(bcum[i] / total)
            lo = float((bcum[i - 1] if i else Fraction(0)) / total)
            for u in (f, math.nextafter(f, 0.0), math.nextafter(f, 2.0), (lo + f) / 2):
                if not 0.0 <= u < 1.0:
                    continue
                script.draws[:] = [u] + [0.0] * 8
                pt = guard(case, g.random_walk)
                n_eval += 1
                toks = [t for t, _ in pt['pt']]
                ok = near(Fraction(u) * total) | near(Fraction(u * ftotal))
                got = [j for j in ok if base[j][0] == toks]
                if not got:
                    where = next((j for j, (tk, _, _) in enumerate(base) if tk == toks), None)
                    raise Violation('base_selection', f'{len(base)} base structures, draw u={u!r}: selected structure #{where} {toks}, the draw lies in the interval of '
                                    f'structure #{sorted(ok)} (cumulative {f!r})', case)
    finally:
        pgm.random = saved
    rec.case({'base_structures': len(base), 'draws': n_eval}, True, ['base_list_of_%d_structures' % len(base)], key=['many_base', n, step], n=n_eval)


def run_many_base(rec, seed, shard, nshards, tier):
    prop_many_base({'n': {'quick': 3000, 'thorough': 12000}[tier], 'step': {'quick': 13, 'thorough': 17}[tier]}, rec)


def run_sampler(rec, seed, shard, nshards, tier):
    n = {'quick': 40, 'thorough': 1200}[tier]
    core.hyp_run(rec, prop_sampler, norm_rulesets(), n, seed)


# ---------------------------------------------------------------- end to end
def language(m, sb, sc=False):
    vs, base = rsmodel.effective(m, sb, sc)
    lang = set()
    for bi, pt in rsmodel.preterminals(vs, base):
        if pt[0][0] == 'M':
            continue
        lang.update(rsmodel.expand(vs, pt))
    return lang


class _TooMany(BaseException):
    pass


class _Budget:
    """stdout stand-in that stops a run-away generator after a line budget (an ignored --limit never terminates)."""

    def __init__(self, max_lines):
        self.parts = []
        self.lines = 0
        self.max_lines = max_lines
        self.exceeded = False

    def write(self, s):
        self.parts.append(s)
        self.lines += s.count('\n')
        if self.lines > self.max_lines:
            self.exceeded = True
            raise _TooMany()
        return len(s)

    def flush(self):
        pass

    def getvalue(self):
        return ''.join(self.parts)


def prop_e2e(case, rec):
    from .. import guesser
    from lib_guesser.honeyword_session import HoneywordSession
    import contextlib
    import io
    m, n, sb, sc = case['model'], case['n'], case['skip_brute'], case.get('skip_case', False)
    rdir = os.path.join(_dir(), 'E')
    rsmodel.write_ruleset(rdir, m)
    lang = language(m, sb, sc)
    if not lang:
        rec.skip('empty_non_markov_language')
        return
    outs = {}
    for mode in ('random_walk', 'honeywords', 'random_walk2'):
        g = guard(case, guesser.load, rdir, skip_brute=sb, skip_case=sc)
        buf = _Budget(n + 200)

        def go():
            with contextlib.redirect_stdout(buf), contextlib.redirect_stderr(io.StringIO()):
                try:
                    HoneywordSession(g, mode.rstrip('2')).run(limit=n)
                except _TooMany:
                    pass
        guard(case, go)
        if buf.exceeded:
            raise Violation('limit', f'{mode} --limit {n}: still writing after {n + 200} words (stopped by the harness)', case)
        lines = buf.getvalue().split('\n')[:-1]
        outs[mode] = lines
        if len(lines) != n:
            raise Violation('limit', f'{mode} --limit {n}: {len(lines)} words written', case)
        bad = [w for w in lines if w not in lang]
        if bad:
            raise Violation('not_in_language', f'{mode}: words outside the non-Markov language: {bad[:5]}', case)
    if outs['random_walk'] != outs['random_walk2']:
        raise Violation('random_walk_not_reproducible', f'two random_walk runs differ: {outs["random_walk"][:5]} vs {outs["random_walk2"][:5]}', case)
    rec.case({'n': n, 'words': outs['random_walk'][:5], 'skip_brute': sb, 'skip_case': sc}, len(lang) >= 4,
             ['e2e', 'subnormalised_base' if case['subnormalised'] else 'normalised_base'] + (['e2e_skip_case'] if sc else []), key=[m, n, sb, sc])


@st.composite
def e2e_cases(draw):
    c = draw(norm_rulesets())
    c['n'] = draw(st.integers(1, 25))
    if draw(st.integers(0, 3)) == 0:
        # long runs, also on Markov-heavy grammars (most walks pick the Markov structure and produce no word)
        c['n'] = draw(st.sampled_from([300, 1200, 2500]))
        m = c['model']
        if any(s_ == 'M' for s_, _ in m['base']) and draw(st.booleans()):
            rest = [[s_, p] for s_, p in m['base'] if s_ != 'M']
            share = draw(st.sampled_from([0.5, 0.9, 0.97]))
            tot = sum(p for _, p in rest) or 1.0
            m['base'] = sorted([['M', share]] + [[s_, p / tot * (1 - share)] for s_, p in rest], key=lambda x: -x[1])
    return c


def run_e2e(rec, seed, shard, nshards, tier):
    n = {'quick': 60, 'thorough': 1500}[tier]
    core.hyp_run(rec, prop_e2e, e2e_cases(), n, seed)


_CLI = None


def prop_cli(case, rec):
    global _CLI
    if _CLI is None or not os.path.isdir(_CLI):
        _CLI = session.copy_cli(session.make_root('c16cli'))
    m, n, sb, sc = case['model'], case['n'], case['skip_brute'], case.get('skip_case', False)
    dup = case.get('duplicate_value')
    if dup is not None:
        # a hand-merged ruleset: one value listed twice in a group of equally probable values. Same language, and still one
        # ruleset - every process must walk it the same way
        import copy
        m = copy.deepcopy(m)
        names = sorted(k for k, gs in m['vars'].items() if k[0] != 'C' and any(len(v) >= 2 for _, v in gs))
        if names:
            gs = m['vars'][names[dup % len(names)]]
            grp = [v for _, v in gs if len(v) >= 2][0]
            grp.insert(1 + dup % len(grp), grp[0])
            rec.cls('cli_value_listed_twice')
    rsmodel.write_ruleset(os.path.join(_CLI, 'Rules', 'T'), m)
    lang = language(m, sb, sc)
    flags = (['--skip_brute'] if sb else []) + (['--all_lower'] if sc else [])
    if not lang:
        rec.skip('empty_non_markov_language')
        return
    from .. import cli
    env = cli.env_for(cli.DEFAULT)
    # a named session (--session) must not make the walk depend on anything but the ruleset: same words in every process
    sname = case.get('session_name')
    sflags = (['--session' if case.get('long_options') else '-s', sname] if sname else [])
    outs = []
    for hs in (1, 77, None):
      try:
        p = cli.run(_CLI, 'pcfg_guesser.py', ['-r', 'T', '-m', 'random_walk', '-n', str(n)] + flags + sflags,
                    dict(cli.DEFAULT, hashseed=hs, cwd=case.get('cwd', 'tool')))
      except subprocess.TimeoutExpired:
        rec.skip('cli_timeout_inconclusive')
        return
      if True:
        outs.append(p.stdout.decode('utf-8', 'replace').split('\n')[:-1])
        if p.returncode != 0:
            raise Violation('crash:cli', p.stderr.decode('utf-8', 'replace')[-600:], case)
    rec.case({'n': n, 'cli_words': outs[0][:5], 'flags': flags + sflags}, len(lang) >= 4, ['cli_random_walk'] + (['cli_all_lower'] if sc else []) + (['cli_named_session'] if sname else []), key=[m, n, sb, sc, 'cli', sname])
    if len(outs[0]) != n:
        raise Violation('limit', f'CLI random_walk -n {n}: {len(outs[0])} lines on stdout', case)
    if outs[0] != outs[1] or outs[0] != outs[2]:
        raise Violation('random_walk_not_reproducible', f'CLI random_walk runs {flags + sflags} in different processes (PYTHONHASHSEED 1 / 77 / unset) differ: '
                        f'{outs[0][:5]} vs {outs[1][:5]} vs {outs[2][:5]}', case)
    bad = [w for w in outs[0] if w not in lang]
    if bad:
        raise Violation('not_in_language', f'CLI random_walk: words outside the non-Markov language: {bad[:5]}', case)
    # the same for a honeyword/random-walk run given --load: the session files of an earlier cracking run (another ruleset, or
    # --all_lower) sit next to pcfg_guesser.py under the default session name; the words still come from the ruleset of THIS run
    hist = case.get('history')
    if not hist:
        return
    sav = os.path.join(_CLI, 'default_run.sav')
    for f in (sav, os.path.join(_CLI, 'default_run.omn')):
        if os.path.exists(f):
            os.remove(f)
    try:
        if hist in ('other_ruleset', 'all_lower'):
            rsmodel.write_ruleset(os.path.join(_CLI, 'Rules', 'U'), OTHER_RULESET)
            args = ['-r', 'U', '-n', '2'] if hist == 'other_ruleset' else ['-r', 'T', '-n', '1'] + ([] if sc else ['--all_lower']) + (['--skip_brute'] if sb else [])
            p0 = subprocess.run([sys.executable, os.path.join(_CLI, 'pcfg_guesser.py')] + args, stdin=subprocess.DEVNULL,
                                capture_output=True, env=dict(env, PYTHONHASHSEED='1'), cwd=_CLI, timeout=120)
            if not os.path.exists(sav):
                rec.skip('history_run_left_no_save_file')
                return
        for mode in ('random_walk', 'honeywords'):
            p = subprocess.run([sys.executable, os.path.join(_CLI, 'pcfg_guesser.py'), '-r', 'T', '-m', mode, '-n', str(n), '--load'] +
                               flags, stdin=subprocess.DEVNULL, capture_output=True,
                               env=dict(env, PYTHONHASHSEED='1'), cwd=_CLI, timeout=120)
            got = p.stdout.decode('utf-8', 'replace').split('\n')[:-1]
            rec.case({'n': n, 'history': hist, 'mode': mode, 'cli_words': got[:5]}, len(lang) >= 4, ['cli_load_after_' + hist],
                     key=[m, n, sb, sc, 'cli', hist, mode])
            if p.returncode != 0:
                raise Violation('crash:cli', p.stderr.decode('utf-8', 'replace')[-600:], case)
            if len(got) != n:
                raise Violation('limit', f'CLI {mode} -n {n} --load (history: {hist}): {len(got)} lines on stdout', case)
            bad = [w for w in got if w not in lang]
            if bad:
                raise Violation('not_in_language', f'CLI {mode} --load (history: {hist}): words outside the non-Markov language of the '
                                f'ruleset given with -r: {bad[:5]}', case)
            if mode == 'random_walk' and got != outs[0]:
                raise Violation('random_walk_not_reproducible', f'CLI random_walk on the same ruleset differs after history {hist}: '
                                f'{outs[0][:5]} vs {got[:5]}', case)
    except subprocess.TimeoutExpired:
        rec.skip('cli_timeout_inconclusive')
    finally:
        for f in (sav, os.path.join(_CLI, 'default_run.omn')):
            if os.path.exists(f):
                os.remove(f)


OTHER_RULESET = {'encoding': 'utf-8', 'uuid': 'c16-other', 'vars': {'D3': [[0.5, ['777']], [0.25, ['778', '779']]]},
                 'base': [['D3', 1.0]], 'm_levels': []}


@st.composite
def cli_cases(draw):
    c = draw(e2e_cases())
    c['n'] = min(c['n'], 300)
    c['history'] = draw(st.sampled_from([None, 'no_save_file', 'other_ruleset', 'all_lower']))
    c['duplicate_value'] = draw(st.integers(0, 7)) if draw(st.booleans()) else None
    if c['history'] is None:
        c['session_name'] = draw(st.sampled_from([None, 'mine', 'side by side', 'night.run-2', 'sess\u00e9', 'default_run']))
        c['long_options'] = draw(st.booleans())
        c['cwd'] = draw(st.sampled_from(['tool', 'elsewhere']))
    return c


def run_cli(rec, seed, shard, nshards, tier):
    n = {'quick': 8, 'thorough': 30}[tier]
    core.hyp_run(rec, prop_cli, cli_cases(), n, seed, shrink=False)


PARTS = [
    Part('many_base_structures', run_many_base, prop_many_base, {'quick': 1, 'thorough': 1}),
    Part('sampler_breakpoints', run_sampler, prop_sampler, {'quick': 8, 'thorough': 16}),
    Part('end_to_end', run_e2e, prop_e2e, {'quick': 4, 'thorough': 16}),
    Part('cli_reproducible', run_cli, prop_cli, {'quick': 4, 'thorough': 8}),
]
