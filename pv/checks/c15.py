"""C15 - a Markov level interrupted mid-way resumes at the very next guess (none repeated, none skipped),
and later quit/resume cycles do not replay that remainder again."""
import os
from collections import Counter

from hypothesis import strategies as st

from .. import core, rsmodel, session, histories, strategies as S
from ..histories import segments
from ..core import Part, Violation, guard

RULE = ("Hypothesis-generated rulesets with a generated OMEN model and 1-3 Markov levels, run through the real main() with the "
        "harness-owned keyboard: 'q' is delivered right after the j-th written guess. Part every_position tries EVERY guess "
        "index j of the run (first/last guess of a level, length and initial-n-gram boundaries included), resumes with --load, "
        "and on a sample also quits a second time later; part histories generates up to 4 quits per history. Oracle: when all "
        "pre-terminal probabilities are distinct, the concatenation of the runs must equal the uninterrupted stream exactly, "
        "each cut lying at a pre-terminal boundary or between two Markov guesses; with ties only guesses of pre-terminals tied "
        "with a saved position may repeat. Non-trivial = a quit strictly inside a Markov level (1 <= j < |level|); distinct = "
        "hash of (model, quit positions). Scale part long_level: one Markov level of 326 592 strings, quit early inside it, resume (the level passes 2^18 guesses in one process and ends), quit in the next pre-terminal, resume.")
ASSUMPTIONS = ["quit = explicit 'q'", "the OMEN model is small enough for the level to be enumerated completely by the real generator"]

_ROOT = None


def _root():
    global _ROOT
    if _ROOT is None or not os.path.isdir(_ROOT):
        _ROOT = session.make_root('c15')
    return _ROOT


def run_history(case, rec, m, quits, root, u, label_cls=()):
    scheds = [[[['guess', j], 'q']] for j in quits]
    sm = histories.run_history(case, root, u, scheds)
    inside = sm['quits_inside_markov']
    cls = list(label_cls) + ['exact_oracle' if sm['distinct'] else 'tied_oracle', f'quits:{len(quits)}']
    if inside:
        cls.append('quit_inside_markov_level')
    if inside and len(sm['saved_positions']) >= 2:
        cls.append('later_cycle_after_markov_quit')
    if sm.get('neighbour_runs'):
        cls.append('neighbour_session_between_runs')
    if sm.get('separate_processes'):
        cls.append('runs_in_separate_processes')
    rec.case({'quits': quits, 'runs': sm['runs'], 'U': len(u.lines),
              'markov_segments': [(s, e) for s, e, mk, _ in segments(u) if mk]}, inside > 0, cls, key=[m, quits])


def prep(case, rec):
    m = case['model']
    root = _root()
    rsmodel.write_ruleset(os.path.join(root, 'Rules', 'T'), m)
    u = guard(case, session.run_main, root, ['-r', 'T', '-s', 'u'])
    if not any(pt[0][0] == 'M' for pt, _ in u.pops) or not any(mk and e - s >= 2 for s, e, mk, _ in segments(u)):
        rec.skip('no_markov_level_with_2_guesses')
        return None, None
    if len(u.lines) > case.get('max_total', 150):
        rec.skip('stream_too_long')
        return None, None
    return root, u


def prop_every(case, rec):
    m = case['model']
    root, u = prep(case, rec)
    if u is None:
        return
    js = case.get('js') or list(range(1, len(u.lines) + 1))
    for j in js:
        if j > len(u.lines):
            continue
        sub = dict(case, js=[j])
        run_history(sub, rec, m, [j], root, u)
        for j2 in case.get('second', []):
            sub2 = dict(case, js=[j], second=[j2])
            run_history(sub2, rec, m, [j, j2], root, u)


# ---------------------------------------------------------------- scale: a Markov level of several hundred thousand guesses
def long_level_model():
    letters = list('abcdef')
    return {'encoding': 'utf-8', 'uuid': 'c15-long', 'vars': {'D1': [[0.5, ['1']], [0.3, ['2']], [0.2, ['3']]]},
            'base': [['M', 0.5], ['D1', 0.5]],
            'omen': {'ngram': 2, 'alphabet': letters, 'ip': [[0, c] for c in letters], 'ep': [[0, c] for c in letters],
                     'cp': [[0, a + b] for a in letters for b in letters], 'ln': [10] * 5 + [1, 1] + [10] * 14},
            'm_levels': [[1, 0.9]], 'keyspace': [[1, 6 ** 6 + 6 ** 7]]}


def run_long_level(rec, seed, shard, nshards, tier):
    """One Markov level of 326 592 strings (6^6 + 6^7): quit early inside it, resume (the level then runs past 2^18 guesses in one
    process and finishes), quit again in a later pre-terminal, resume: the finished level may not come back."""
    m = long_level_model()
    case = {'model': m, 'max_total': 10 ** 6}
    root, u = prep(case, rec)
    if u is None:
        raise core.HarnessError('long_level model produced no Markov level')
    level = next(e - s for s, e, mk, _ in segments(u) if mk)
    for first in ([1000] if tier == 'quick' else [1000, 270000]):
        run_history(dict(case, js=[first]), rec, m, [first, level - first + 1], root, u, label_cls=['markov_level_of_%d_guesses' % level])


@st.composite
def cases(draw, max_pt=10):
    m = draw(S.rulesets(max_pt=max_pt, markov='yes', max_structs=2, families=['count', 'float', 'tenths', 'dyadic'], rich_levels=True))
    case = {'model': m, 'second': draw(st.lists(st.integers(1, 12), max_size=1)), 'max_total': 50}
    if draw(st.integers(0, 2)) == 0:
        # another session of the same ruleset, with a related name, is quit somewhere else between the runs of this one
        case['sessions'] = draw(st.sampled_from(histories.SESSION_PAIRS))
        case['neighbour_quits'] = [draw(st.integers(1, 25)) for _ in range(2)]
    return case


def run_every(rec, seed, shard, nshards, tier):
    n = {'quick': 6, 'thorough': 80}[tier]
    core.hyp_run(rec, prop_every, cases(), n, seed)


def prop_hist(case, rec):
    m = case['model']
    root, u = prep(case, rec)
    if u is None:
        return
    run_history(case, rec, m, case['quits'], root, u)


@st.composite
def hist_cases(draw):
    m = draw(S.rulesets(max_pt=12, markov='yes', max_structs=2, families=['count', 'float', 'tenths', 'dyadic'], rich_levels=True))
    quits = draw(st.lists(st.integers(1, 25), min_size=1, max_size=4))
    case = {'model': m, 'quits': quits}
    if draw(st.booleans()):
        case['sessions'] = draw(st.sampled_from(histories.SESSION_PAIRS))
        case['neighbour_quits'] = [draw(st.integers(1, 25)) for _ in range(len(quits))]
    return case


def run_hist(rec, seed, shard, nshards, tier):
    n = {'quick': 150, 'thorough': 2500}[tier]
    core.hyp_run(rec, prop_hist, hist_cases(), n, seed)


# committed regression (finding F15): quit inside a level, resume, quit outside OMEN, resume
F15_CASE = {'model': {'encoding': 'utf-8', 'uuid': 'f15', 'vars': {'D1': [[0.5, ['1']], [0.3, ['2']], [0.15, ['3']], [0.05, ['4']]]},
                      'base': [['D1', 0.5], ['M', 0.5]],
                      'omen': {'ngram': 2, 'alphabet': ['a', 'b'], 'ip': [[0, 'a'], [1, 'b']], 'ep': [[0, 'a'], [1, 'b']],
                               'cp': [[0, 'aa'], [1, 'ab'], [0, 'ba'], [1, 'bb']], 'ln': [10, 0, 1] + [10] * 18},
                      'm_levels': [[1, 0.2], [2, 0.05]], 'keyspace': [[1, 5], [2, 8]]},
            'quits': [3, 3]}


def run_regress(rec, seed, shard, nshards, tier):
    prop_hist(F15_CASE, rec)


@st.composite
def process_cases(draw):
    c = draw(hist_cases())
    c['quits'] = c['quits'][:2]
    if draw(st.booleans()):
        # many initial n-grams on ONE level: whatever order the loader gives them has to be the same in the process that resumes
        k = draw(st.integers(4, 6))
        al = list('abcdef')[:k]
        om = {'ngram': 2, 'alphabet': al, 'ip': [[0, x] for x in al], 'ep': [[0, x] for x in al], 'cp': [[1, x + y] for x in al for y in al],
              'ln': [10, 0] + [10] * 19}
        c['model'] = {'encoding': 'utf-8', 'uuid': 'c15-ips', 'vars': {'D1': [[0.6, ['1']], [0.4, ['2']]]}, 'base': [['M', 0.6], ['D1', 0.4]], 'omen': om,
                      'm_levels': [[1, 0.5]], 'keyspace': [[1, k * k]]}
        c['quits'] = [draw(st.integers(2, k * k - 1))] + ([draw(st.integers(1, 10))] if draw(st.booleans()) else [])
        c.pop('sessions', None)
        c.pop('neighbour_quits', None)
    c['process_hashseeds'] = draw(st.lists(st.sampled_from([1, 2, 77, 4242, None]), min_size=2, max_size=3, unique=True))
    return c


def run_processes(rec, seed, shard, nshards, tier):
    n = {'quick': 4, 'thorough': 60}[tier]
    core.hyp_run(rec, prop_hist, process_cases(), n, seed, shrink=(tier == 'thorough'))


PARTS = [
    Part('long_level', run_long_level, prop_every, {'quick': 1, 'thorough': 1}),
    Part('regression_f15', run_regress, prop_hist, {'quick': 1, 'thorough': 1}),
    Part('every_position', run_every, prop_every, {'quick': 8, 'thorough': 16}),
    Part('histories', run_hist, prop_hist, {'quick': 6, 'thorough': 16}),
    Part('separate_processes', run_processes, prop_hist, {'quick': 3, 'thorough': 8}),
]
