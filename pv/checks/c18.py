"""C18 - the saved OMEN keyspace of a level is the number of distinct strings the guesser's Markov generator really
emits at that level, and the level's saved probability is (fraction of training passwords at that level) / keyspace."""
import os
from collections import Counter

from hypothesis import strategies as st

from .. import core, omen_ref, trainer
from ..core import Part, Violation, guard

core.use_repo()

RULE = ("Every listed level (1..18) is also compared with an independent dynamic-programming count of the level's strings. "
        "Hypothesis-generated training lists biased to short passwords over 2-4 letters (n-gram 2-4; lists dominated by passwords "
        "whose length equals the n-gram size, or by a single length so that the length cost is 0) through the real trainer. "
        "Oracle: for every level listed in omen_keyspace.txt whose reference size is <= 1500 and level <= 11 (quick) / <= 50000 and all levels (thorough) the real MarkovCracker (real "
        "load_rules on the written ruleset) is run to exhaustion and the number of distinct strings must equal the saved "
        "keyspace; pcfg_omen_prob.txt must list exactly the levels with non-zero keyspace, each with probability "
        "(count_at_level / N) / keyspace within 2 ulps. Non-trivial = a level with keyspace >= 2 that contains a string of length "
        "== n-gram size or one built with zero remaining level after the initial n-gram; distinct = hash of (list, options, level).")
ASSUMPTIONS = ["levels whose reference size exceeds 50000 are inconclusive (counted, not judged)",
               "a run in which the trainer does not complete is skipped and counted"]

_DIR = None


def _dir():
    global _DIR
    if _DIR is None or not os.path.isdir(_DIR):
        _DIR = core.scratch_dir('c18')
    return _DIR


def prop(case, rec):
    from .. import guesser
    from lib_guesser.omen.markov_cracker import MarkovCracker
    from lib_guesser.omen.optimizer import Optimizer
    from lib_trainer.omen.evaluate_password import find_omen_level
    from .c11 import guesser_model
    pws = []
    for p, c in case['entries']:
        pws += [p] * c
    path = os.path.join(_dir(), 'train.txt')
    pc = trainer.write_list(path, case['entries'], 'utf-8', case.get('spelling', 'plain'))
    rec.cls('list_spelling_' + case.get('spelling', 'plain'))
    out = os.path.join(_dir(), 'R')
    r = guard(case, trainer.train, path, out, encoding='utf-8', coverage=case.get('coverage', 0.5), ngram=case['ngram'], alphabet_size=case['alphabet_size'], prefixcount=pc)
    rec.cls('coverage_%s' % case.get('coverage', 0.5))
    if not r.ok:
        if r.error is not None and not isinstance(r.error, ZeroDivisionError):
            raise Violation('crash:' + type(r.error).__name__, f'run_trainer raised {r.error!r}', case)
        rec.skip('trainer_did_not_complete')
        return
    g = guard(case, guesser.load, out)
    gm = guesser_model(g.omen_grammar)
    n = gm.ngram
    saved_ks = {}
    with open(os.path.join(out, 'Omen', 'omen_keyspace.txt'), encoding='utf-8') as f:
        for line in f:
            a, b = line.split('\t')
            saved_ks[int(a)] = int(b)
    saved_prob = {}
    with open(os.path.join(out, 'Omen', 'pcfg_omen_prob.txt'), encoding='utf-8') as f:
        for line in f:
            a, b = line.split('\t')
            saved_prob[int(a)] = float(b)
    opt = Optimizer(max_length=4)
    # "the fraction of training passwords at that level": over the occurrences the list holds (as the first pass yields them),
    # not over whatever the third pass happened to read
    from lib_trainer.trainer_file_input import check_valid
    occurrences = [p for p in pws if check_valid(p)]
    if list(r.passes[0]) != occurrences:
        raise Violation('first_pass_sequence', f'the first pass read {len(r.passes[0])} passwords, the list holds {len(occurrences)} valid occurrences '
                        f'(spelling {case.get("spelling", "plain")})', case)
    N = len(occurrences)
    # the level of a training password by the independent level function over the tables the guesser loads (C11 ties it to the
    # trainer's own find_omen_level; using that one here would let a defect in it hide itself)
    per_level = Counter(omen_ref.level_of(gm, p) for p in occurrences)
    # the probability relation needs no enumeration: it is checked for EVERY listed level against the saved keyspace
    unparseable = per_level.get(-1, 0)
    for L in sorted(saved_ks):
        if saved_ks[L] == 0:
            if L in saved_prob:
                raise Violation('omen_prob', f'level {L} has keyspace 0 but is listed in pcfg_omen_prob.txt', dict(case, levels=[L]))
            continue
        want = (per_level[L] / N) / saved_ks[L]
        if L not in saved_prob:
            raise Violation('omen_prob', f'level {L} (keyspace {saved_ks[L]}) is missing from pcfg_omen_prob.txt', dict(case, levels=[L]))
        if abs(saved_prob[L] - want) > 4 * 2.0 ** -52 * max(want, 1e-300):
            raise Violation('omen_prob', f'level {L}: saved probability {saved_prob[L]!r}, expected ({per_level[L]}/{N})/{saved_ks[L]} = {want!r} '
                            f'({unparseable} training passwords have no OMEN level)', dict(case, levels=[L]))
    if unparseable:
        rec.cls('list_has_passwords_without_omen_level')
    # every listed level, however high or large, against the independent count of the level's strings (dynamic programming over
    # the files the guesser reads; no enumeration). The generator itself is run below on the levels that are small enough.
    for L in sorted(saved_ks):
        ref_n = omen_ref.count_level(gm, L)
        if ref_n <= 10 ** 9:
            rec.cls('level_counted_by_reference')
            if L >= 12:
                rec.cls('level_12_to_18_counted_by_reference')
            if ref_n != saved_ks[L]:
                raise Violation('keyspace', f'level {L} (n-gram {n}): omen_keyspace.txt says {saved_ks[L]}, the level holds {ref_n} distinct strings '
                                f'(reference count over IP/CP/LN as the guesser loads them)', dict(case, levels=[L]))
    for L in sorted(saved_ks):
        if L > case.get('max_level', 18):
            rec.skip('level_above_quick_tier_bound')
            continue
        if omen_ref.count_level(gm, L) > case.get('cap', 50000) or omen_ref.search_space(gm, L, cap=300000) > 300000:
            rec.skip('level_too_large_inconclusive')
            continue
        sub = dict(case, levels=[L])
        mc = MarkovCracker(g.omen_grammar, L, opt)
        got = set()
        total = 0
        while True:
            x = guard(sub, mc.next_guess)
            if x is None:
                break
            got.add(x)
            total += 1
            if total > 120000:
                raise Violation('never_exhausts', f'level {L}', sub)
        has_eq = any(len(s) == n for s in got)
        zero_rem = any(gm.ip.get(s[:n - 1], 99) + gm.ln.get(len(s), 99) == L for s in got)
        cls = ['length_eq_ngram' if has_eq else 'no_length_eq_ngram'] + (['zero_level_after_ip'] if zero_rem else []) + \
              (['single_length_cost_0'] if list(gm.ln.values()).count(0) >= 1 else [])
        rec.case({'level': L, 'saved_keyspace': saved_ks[L], 'generated': len(got), 'ngram': n}, len(got) >= 2 and (has_eq or zero_rem), cls,
                 key=[case['entries'], case['ngram'], case['alphabet_size'], L])
        if len(got) != saved_ks[L]:
            raise Violation('keyspace', f'level {L} (n-gram {n}): omen_keyspace.txt says {saved_ks[L]}, the Markov generator emits {len(got)} distinct strings '
                            f'(e.g. {sorted(got)[:6]})', sub)
        if saved_ks[L] == 0:
            if L in saved_prob:
                raise Violation('omen_prob', f'level {L} has keyspace 0 but is listed in pcfg_omen_prob.txt', sub)
        else:
            want = (per_level[L] / N) / saved_ks[L]
            if L not in saved_prob:
                raise Violation('omen_prob', f'level {L} (keyspace {saved_ks[L]}) is missing from pcfg_omen_prob.txt', sub)
            if abs(saved_prob[L] - want) > 4 * 2.0 ** -52 * max(want, 1e-300):
                raise Violation('omen_prob', f'level {L}: saved probability {saved_prob[L]!r}, expected ({per_level[L]}/{N})/{saved_ks[L]} = {want!r}', sub)
    extra = set(saved_prob) - set(saved_ks)
    if extra:
        raise Violation('omen_prob', f'pcfg_omen_prob.txt lists levels without a keyspace entry: {sorted(extra)}', case)


@st.composite
def cases(draw):
    ngram = draw(st.sampled_from([2, 2, 3, 3, 4]))
    letters = draw(st.sampled_from(['ab', 'abc', 'abc1', 'ab1!']))
    style = draw(st.sampled_from(['eq_ngram', 'single_length', 'mixed', 'mixed', 'hub', 'hub']))
    n = draw(st.integers(4, 30))
    entries, seen = [], set()
    fixed_len = draw(st.integers(ngram, ngram + 2))
    if style == 'hub':
        # a context with many roughly equally likely successors (none of them gets transition level 0)
        hub = ''.join(draw(st.lists(st.sampled_from('qa'), min_size=ngram - 1, max_size=ngram - 1)))
        followers = draw(st.lists(st.sampled_from('bcdefghijklm'), min_size=6, max_size=10, unique=True))
        tail = draw(st.sampled_from(['', 'z', 'z1', '1']))
        lead = draw(st.sampled_from(['', 'q', 'x']))
        for f in followers:
            p = lead + hub + f + tail
            if p not in seen and len(p) >= 1:
                seen.add(p)
                entries.append([p, draw(st.sampled_from([1, 1, 2]))])
        letters = 'qaxz1'
        n = draw(st.integers(0, 6))
    for _ in range(n):
        if style == 'eq_ngram' and draw(st.integers(0, 3)) > 0:
            ln = ngram
        elif style == 'single_length':
            ln = fixed_len
        else:
            ln = draw(st.integers(max(1, ngram - 1), ngram + 3))
        p = ''.join(draw(st.lists(st.sampled_from(letters), min_size=ln, max_size=ln)))
        if p in seen:
            continue
        seen.add(p)
        entries.append([p, draw(st.sampled_from([1, 1, 2, 3, 6]))])
    if draw(st.integers(0, 4)) == 0:
        # very repetitive passwords at and around the maximum length the OMEN trainer looks at (21): they get a listed level
        ch = letters[0]
        for ln_, c_ in ((21, draw(st.sampled_from([1, 3, 6]))), (20, draw(st.sampled_from([0, 1, 2]))), (22, draw(st.sampled_from([0, 1])))):
            if c_:
                entries.append([ch * ln_, c_])
        if draw(st.booleans()):
            entries.append([ch * 20 + letters[1], 1])
    return {'entries': entries, 'ngram': ngram, 'alphabet_size': draw(st.sampled_from([100, 100, 3, 2])), 'spelling': draw(st.sampled_from(trainer.SPELLINGS)),
            'coverage': draw(st.sampled_from([0.5, 0.5, 0.6, 1, 1.0, 0.0, 0.99]))}


def run_main(rec, seed, shard, nshards, tier):
    n = {'quick': 120, 'thorough': 1500}[tier]
    cap = {'quick': 1500, 'thorough': 50000}[tier]
    ml = {'quick': 11, 'thorough': 18}[tier]
    core.hyp_run(rec, prop, cases().map(lambda c: dict(c, cap=cap, max_level=ml)), n, seed)


PARTS = [
    Part('keyspace_vs_generator', run_main, prop, {'quick': 8, 'thorough': 16}),
]
