"""C10 - the OMEN generator enumerates each level exactly (each string once, none missing, then exhaustion),
independently of what the shared lookup cache holds or which levels were generated before."""
import os
from collections import Counter

from hypothesis import strategies as st
from hypothesis.stateful import RuleBasedStateMachine, initialize, rule, precondition

from .. import core, rsmodel, omen_ref, strategies as S
from ..core import Part, Violation, guard

core.use_repo()

RULE = ("Hypothesis-generated OMEN models (n-gram 2..5, alphabet 2-4 symbols incl. non-ASCII, IP/CP levels 0..10 sparse or dense, "
        "dead-end contexts, contexts whose cheapest successor is unaffordable, 1-3 cheap lengths incl. length == n-gram size), "
        "written to disk and loaded with the real load_rules. Part levels: every level 0..12 with a fresh optimizer. Part "
        "cache_histories: a Hypothesis RuleBasedStateMachine shares one Optimizer over a generated sequence of operations "
        "generate(level) / generate_partial(level, j) / fresh_optimizer / change_cache_length. Oracle: an independent DFS "
        "enumerator (pv/omen_ref.py): emitted list has no duplicates, its set equals the reference set, then None is reported; in cache_histories the emitted SEQUENCE (and every abandoned run's prefix) must also equal what a generator with an empty cache emits - a resumed session continues by position with an empty cache. "
        "Non-trivial = the level has >=2 strings, one of length >= n+1, and the model has a dead-end or unaffordable context; "
        "distinct = hash of (model, level, history position). Scale part large_cache: a model with 17 576 initial n-grams (nearly all dead ends) run through 18 levels with one shared cache that grows beyond 2^18 results; every level against the reference and against an empty-cache generator.")
ASSUMPTIONS = ["every IP / CP n-gram is listed once (the trainer's format)", "at least one IP and one length have a level below 10",
               "levels whose reference set exceeds 30000 strings, or whose prefix space (partial strings within the level budget) exceeds 200000, are inconclusive: skipped and counted"]

_DIR = None


def _dir():
    global _DIR
    if _DIR is None or not os.path.isdir(_DIR):
        _DIR = core.scratch_dir('c10')
    return _DIR


@st.composite
def omen_models(draw):
    import itertools
    ngram = draw(st.sampled_from([2, 2, 3, 3, 4, 5]))
    na = draw(st.integers(2, 4 if ngram <= 3 else 3 if ngram == 4 else 2))
    alpha = draw(st.lists(st.sampled_from(list('abc1é яAB')), min_size=na, max_size=na, unique=True))
    ctxs = [''.join(t) for t in itertools.product(alpha, repeat=ngram - 1)]
    lv = st.sampled_from([0, 0, 0, 1, 1, 2, 3, 5, 8, 10])
    ip = []
    for c in ctxs:
        if draw(st.integers(0, 3)) > 0:
            ip.append([draw(lv), c])
    if not ip or all(l >= 10 for l, _ in ip):
        ip = [[draw(st.sampled_from([0, 1, 2])), ctxs[0]]] + [x for x in ip if x[1] != ctxs[0]]
    cp = []
    for c in ctxs:
        mode = draw(st.integers(0, 5))       # 0 dead end; 1 only expensive successors; else sparse/dense
        if mode == 0:
            continue
        for a in alpha:
            if mode == 1:
                if draw(st.booleans()):
                    cp.append([draw(st.sampled_from([5, 8, 10])), c + a])
            elif mode >= 4 or draw(st.booleans()):
                cp.append([draw(lv), c + a])
    ln = [10] * 21
    for _ in range(draw(st.integers(1, 3))):
        pos = draw(st.integers(ngram, ngram + (3 if na <= 3 else 2)))
        ln[pos - 1] = draw(st.sampled_from([0, 0, 1, 2, 4]))
    om = {'ngram': ngram, 'alphabet': alpha, 'ip': ip, 'ep': ip, 'cp': cp, 'ln': ln}
    if draw(st.integers(0, 3)) == 0:
        # the level files as a hand edit / line-end conversion leaves them: CRLF, no newline after the last entry
        om['file_style'] = draw(S.file_styles())
    return om


def load_model(om, case):
    from lib_guesser.omen.input_file_io import load_rules
    rdir = os.path.join(_dir(), 'R')
    rsmodel.write_ruleset(rdir, {'encoding': 'utf-8', 'vars': {}, 'base': [['M', 1.0]], 'omen': om, 'm_levels': [[1, 0.5]], 'file_style': om.get('file_style')})
    grammar = {}
    with core.quiet():
        ok = guard(case, load_rules, os.path.join(rdir, 'Omen'), grammar)
    if not ok:
        raise Violation('omen_load_failed', 'load_rules refused a well-formed OMEN model', case)
    return grammar


class StepBudget(Exception):
    pass


SEARCH_CAP = 200000          # (model, level) pairs whose prefix space is larger are inconclusive


_REC = [None]


_STEPS = {'n': 0, 'max': 0, 'installed': False, 'peak_ratio': 0.0}


def _install_step_counter():
    """Deterministic work budget (no wall clock): counts calls of the generator's innermost lookup."""
    if _STEPS['installed']:
        return
    import lib_guesser.omen.guess_structure as gs
    orig = gs.GuessStructure._find_cp

    def counted(self, ip, top_level, bottom_level):
        _STEPS['n'] += 1
        if _STEPS['n'] > _STEPS['max']:
            raise StepBudget()
        return orig(self, ip, top_level, bottom_level)

    gs.GuessStructure._find_cp = counted
    _STEPS['installed'] = True


def drain(case, grammar, level, optimizer, limit=40000, stop_after=None, nref=0):
    from lib_guesser.omen.markov_cracker import MarkovCracker
    _install_step_counter()
    _STEPS['n'] = 0
    # measured on the unchanged tree over 78000 (model, level) pairs: <= 131075 lookups for an empty level, <= 10943 per string
    _STEPS['max'] = 100000 * nref + 5000000
    try:
        return _drain(case, grammar, level, optimizer, limit, stop_after, MarkovCracker)
    except StepBudget:
        v = Violation('never_exhausts', f'level {level}: work budget of {_STEPS["max"]} lookups exceeded without reporting exhaustion '
                      f'(the reference level has {nref} strings)', case)
        if _REC[0] is not None:
            _REC[0].add_violation(v)
            raise core.StopSearch()          # re-evaluating an overrun costs seconds: record it un-shrunk and stop
        raise v
    finally:
        _STEPS['peak_ratio'] = max(_STEPS['peak_ratio'], _STEPS['n'] / (nref + 1))


def _drain(case, grammar, level, optimizer, limit, stop_after, MarkovCracker):
    mc = guard(case, MarkovCracker, grammar, level, optimizer)
    out = []
    while True:
        x = guard(case, mc.next_guess)
        if x is None:
            return out, True
        out.append(x)
        if stop_after is not None and len(out) >= stop_after:
            return out, False
        if len(out) > limit:
            raise Violation('never_exhausts', f'level {level}: more than {limit} strings emitted without reporting exhaustion', case)


def model_features(om):
    ctxs_with_succ = {s[:-1] for _, s in om['cp']}
    reachable = {s for _, s in om['ip']} | {s[1:] for _, s in om['cp']}
    dead = any(c not in ctxs_with_succ for c in reachable)
    expensive = any(min(l for l, s in om['cp'] if s[:-1] == c) >= 5 for c in ctxs_with_succ)
    return dead, expensive


def compare(case, level, got, ref, what):
    cg = Counter(got)
    dups = [k for k, v in cg.items() if v > 1]
    if dups:
        raise Violation('duplicate', f'{what} level {level}: emitted twice: {dups[:5]}', case)
    sr = set(ref)
    if set(got) != sr:
        raise Violation('level_set', f'{what} level {level}: {len(got)} strings emitted, reference has {len(sr)}; missing {sorted(sr - set(got))[:5]} '
                        f'extra {sorted(set(got) - sr)[:5]}', case)


def prop_levels(case, rec):
    from lib_guesser.omen.optimizer import Optimizer
    _REC[0] = rec
    om = case['omen']
    grammar = load_model(om, case)
    ref_model = omen_ref.from_model_dict(om)
    dead, expensive = model_features(om)
    for level in case.get('levels') or range(0, 13):
        sub = dict(case, levels=[level])
        if omen_ref.search_space(ref_model, level, cap=SEARCH_CAP) > SEARCH_CAP:
            # a tiny level can still need an astronomically long search (cheap transitions in cycles over 21 lengths), for
            # the real generator and for the reference alike: that is slowness, not a wrong result - inconclusive, not judged
            rec.skip('search_space_too_large_inconclusive')
            continue
        ref = omen_ref.enumerate_level(ref_model, level, cap=30000)
        if ref is None:
            rec.skip('level_too_large')
            continue
        got, done = drain(sub, grammar, level, Optimizer(max_length=4), nref=len(ref))
        nontriv = len(ref) >= 2 and any(len(s) >= om['ngram'] + 1 for s in ref) and (dead or expensive)
        cls = [f"ngram{om['ngram']}"] + (['dead_end'] if dead else []) + (['expensive_only_context'] if expensive else []) + \
              (['empty_level'] if not ref else []) + (['length_eq_ngram'] if any(len(s) == om['ngram'] for s in ref) else [])
        rec.case({'ngram': om['ngram'], 'level': level, 'n': len(ref), 'sample': ref[:4]}, nontriv, cls, key=[om, level])
        compare(sub, level, got, ref, 'fresh optimizer,')


def run_levels(rec, seed, shard, nshards, tier):
    n = {'quick': 150, 'thorough': 2500}[tier]
    core.hyp_run(rec, prop_levels, omen_models().map(lambda om: {'omen': om}), n, seed)
    rec.classes['peak_lookups_per_string_x1'] = int(_STEPS['peak_ratio'])


# ---------------------------------------------------------------- cache histories (stateful)
def make_machine(rec):
    from lib_guesser.omen.optimizer import Optimizer

    class CacheHistory(RuleBasedStateMachine):
        def __init__(self):
            super().__init__()
            self.ops = []
            self.om = None

        def case(self):
            return {'omen': self.om, 'ops': self.ops}

        @initialize(om=omen_models(), ml=st.sampled_from([4, 4, 2, 1]))
        def setup(self, om, ml):
            self.om = om
            self.ops = [['optimizer', ml]]
            self.grammar = load_model(om, self.case())
            self.ref_model = omen_ref.from_model_dict(om)
            self.opt = Optimizer(max_length=ml)
            self.feat = model_features(om)
            self.fresh = {}

        def fresh_sequence(self, level, nref):
            # what a generator with an EMPTY cache emits for this level, in its order: a resumed session starts with an empty
            # cache and continues by position, so the order may not depend on the cache either
            if level not in self.fresh:
                self.fresh[level] = drain(self.case(), self.grammar, level, Optimizer(max_length=4), nref=nref)[0]
            return self.fresh[level]

        @rule(level=st.integers(0, 12))
        def generate(self, level):
            self.ops.append(['generate', level])
            if omen_ref.search_space(self.ref_model, level, cap=SEARCH_CAP) > SEARCH_CAP:
                rec.skip('search_space_too_large_inconclusive')
                return
            ref = omen_ref.enumerate_level(self.ref_model, level, cap=30000)
            if ref is None:
                rec.skip('level_too_large')
                return
            got, done = drain(self.case(), self.grammar, level, self.opt, nref=len(ref))
            nontriv = len(ref) >= 2 and any(len(s) >= self.om['ngram'] + 1 for s in ref) and any(self.feat) and len(self.ops) > 2
            rec.case({'ops': self.ops[-6:], 'n': len(ref)}, nontriv, ['history_generate', f'history_len>={min(len(self.ops), 8)}'],
                     key=[self.om, self.ops])
            compare(self.case(), level, got, ref, f'after history {self.ops[:-1][-6:]},')
            fresh = self.fresh_sequence(level, len(ref))
            if got != fresh:
                k = next(i for i, (a, b) in enumerate(zip(got, fresh)) if a != b)
                raise Violation('order_depends_on_cache', f'level {level} after history {self.ops[:-1][-6:]}: same strings as with an empty cache but in another '
                                f'order, first difference at position {k}: {got[k:k + 3]} vs {fresh[k:k + 3]}', self.case())

        @rule(level=st.integers(0, 12), j=st.integers(1, 12))
        def generate_partial(self, level, j):
            self.ops.append(['partial', level, j])
            if omen_ref.search_space(self.ref_model, level, cap=SEARCH_CAP) > SEARCH_CAP:
                rec.skip('search_space_too_large_inconclusive')
                return
            ref = omen_ref.enumerate_level(self.ref_model, level, cap=30000)
            if ref is None:
                rec.skip('level_too_large')
                return
            got, done = drain(self.case(), self.grammar, level, self.opt, stop_after=j, nref=len(ref))
            rec.case({'ops': self.ops[-6:]}, False, ['history_partial'], key=[self.om, self.ops])
            if len(set(got)) != len(got) or not set(got) <= set(ref):
                raise Violation('partial_prefix', f'abandoned run of level {level} after {j}: {got} is not a duplicate-free subset of the level', self.case())
            fresh = self.fresh_sequence(level, len(ref))
            if got != fresh[:j]:
                raise Violation('order_depends_on_cache', f'abandoned run of level {level} after {j} with history {self.ops[:-1][-6:]}: {got} is not how a generator with an '
                                f'empty cache starts the level: {fresh[:j]}', self.case())

        @rule(ml=st.sampled_from([4, 2, 1, 3]))
        def fresh_optimizer(self, ml):
            self.ops.append(['optimizer', ml])
            self.opt = Optimizer(max_length=ml)

    return CacheHistory


def replay_history(case, rec):
    from lib_guesser.omen.optimizer import Optimizer
    _REC[0] = None
    om = case['omen']
    grammar = load_model(om, case)
    ref_model = omen_ref.from_model_dict(om)
    opt = None
    for op in case['ops']:
        if op[0] == 'optimizer':
            opt = Optimizer(max_length=op[1])
        elif op[0] == 'generate':
            if omen_ref.search_space(ref_model, op[1], cap=SEARCH_CAP) > SEARCH_CAP:
                continue
            ref = omen_ref.enumerate_level(ref_model, op[1], cap=30000)
            if ref is None:
                continue
            got, _ = drain(case, grammar, op[1], opt, nref=len(ref))
            compare(case, op[1], got, ref, 'replayed history,')
            if got != drain(case, grammar, op[1], Optimizer(max_length=4), nref=len(ref))[0]:
                raise Violation('order_depends_on_cache', f'level {op[1]}: order differs from a generator with an empty cache', case)
        elif op[0] == 'partial':
            if omen_ref.search_space(ref_model, op[1], cap=SEARCH_CAP) > SEARCH_CAP:
                continue
            ref = omen_ref.enumerate_level(ref_model, op[1], cap=30000)
            if ref is None:
                continue
            got, _ = drain(case, grammar, op[1], opt, stop_after=op[2], nref=len(ref))
            if len(set(got)) != len(got) or not set(got) <= set(ref):
                raise Violation('partial_prefix', f'abandoned run of level {op[1]}: {got}', case)
            if got != drain(case, grammar, op[1], Optimizer(max_length=4), nref=len(ref))[0][:op[2]]:
                raise Violation('order_depends_on_cache', f'abandoned run of level {op[1]}: {got} is not how a generator with an empty cache starts the level', case)


# ---------------------------------------------------------------- scale: a cache of several hundred thousand results
def large_cache_model():
    """26^3 = 17 576 initial n-grams (as a real model has: Default lists 103 316), nearly all of them dead ends, so that every
    (initial n-gram, length, level) costs one cached negative result and few strings are generated."""
    import itertools
    letters = 'abcdefghijklmnopqrstuvwxyz'
    ctx = [''.join(t) for t in itertools.product(letters, repeat=3)]
    live = ['abc', 'bcd', 'cda', 'dab', 'bca', 'cab', 'abd', 'bda']
    cp = [[k % 2, c + ch] for c in live for k, ch in enumerate('abcd') if (c + ch)[1:] in live]
    return {'ngram': 4, 'alphabet': list(letters), 'ip': [[i % 3, c] for i, c in enumerate(ctx)], 'ep': [[0, c] for c in live], 'cp': cp,
            'ln': [10, 10, 10, 0, 0, 1, 1] + [10] * 14}


def prop_large_cache(case, rec):
    from lib_guesser.omen.optimizer import Optimizer
    _REC[0] = None
    om = large_cache_model()
    grammar = load_model(om, case)
    ref_model = omen_ref.from_model_dict(om)
    opt = Optimizer(max_length=4)
    fresh = {}
    for step, level in enumerate(case['levels']):
        sub = dict(case, upto=step)
        ref = omen_ref.enumerate_level(ref_model, level, cap=30000)
        if ref is None:
            raise core.HarnessError('large_cache model: level %d too large for the reference' % level)
        got, _ = drain(sub, grammar, level, opt, nref=len(ref))
        entries = sum(len(v) for d in opt.tmto_lookup for v in d.values()) if hasattr(opt, 'tmto_lookup') else -1
        rec.case({'level': level, 'strings': len(ref), 'cached_results': entries}, True, ['cache_of_more_than_262144_results' if entries > 262144 else 'cache_growing'],
                 key=['large_cache', step, level])
        compare(sub, level, got, ref, f'shared cache holding {entries} results, after levels {case["levels"][:step]},')
        if level not in fresh:
            fresh[level] = drain(sub, grammar, level, Optimizer(max_length=4), nref=len(ref))[0]
        if got != fresh[level]:
            raise Violation('order_depends_on_cache', f'level {level} with a cache of {entries} results: same strings as with an empty cache, other order', sub)


def run_large_cache(rec, seed, shard, nshards, tier):
    prop_large_cache({'levels': [0, 1, 2, 3, 4, 5, 6, 7, 2, 3, 4, 6, 8, 1, 5, 9, 0, 3]}, rec)


def run_histories(rec, seed, shard, nshards, tier):
    _REC[0] = rec
    n = {'quick': 60, 'thorough': 600}[tier]
    core.hyp_machine(rec, make_machine(rec), n, 12 if tier == 'quick' else 25, seed)


PARTS = [
    Part('large_cache', run_large_cache, prop_large_cache, {'quick': 1, 'thorough': 1}),
    Part('levels', run_levels, prop_levels, {'quick': 8, 'thorough': 16}),
    Part('cache_histories', run_histories, replay_history, {'quick': 8, 'thorough': 16}),
]
