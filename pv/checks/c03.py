"""C03 - every supported training password is reproduced by the trained grammar (without Markov guessing), with
its original capitalisation, digits, symbols, spaces and non-ASCII letters; emitted probabilities sum to 1."""
import os

from hypothesis import strategies as st

from .. import core, pwgen, trainer
from ..core import Part, Violation, guard

RULE = ("Hypothesis-generated training lists (structured passwords: words in several capitalisations, multi-words, digits, years, "
        "keyboard walks, context strings, symbols, spaces, Cyrillic/Greek/Latin-1 letters, non-BMP symbols, duplicates) x coverage "
        "in (0,1] x n-gram 2-5 x alphabet size x encoding in {utf-8, ascii, latin-1, cp1251, cp1252, cp1250, iso-8859-2, iso-8859-15, koi8-r, and alias spellings} (repertoire restricted to "
        "the encoding): the real trainer writes a ruleset, the real guesser loads it (skip_brute when a Markov structure exists) "
        "and the real queue is drained with every pre-terminal expanded. Oracle: every training password whose recorded "
        "segmentation has no e-mail/website segment is among the emitted guesses, byte for byte; sum of probability x number of "
        "guesses over all pre-terminals is 1 within 1e-9; a large_lists part trains lists that put 1000-2100 distinct values into one rules file. Non-trivial = the list has a password with an upper-case letter and "
        ">=2 segment types, or a multi-word, or a non-ASCII letter; distinct = hash of (list, options).")
ASSUMPTIONS = ["letter domain of the property: alphabetic characters whose upper/lower case mapping is one-to-one",
               "coverage 0 ('Markov only') is outside: 'without Markov guessing' is empty there by definition",
               "languages above 40000 guesses / 20000 pre-terminals are skipped and counted",
               "a run in which the trainer does not complete is skipped and counted"]

_DIR = None
ENCODINGS = ['utf-8', 'utf-8', 'utf-8', 'ascii', 'latin-1', 'cp1251', 'cp1252', 'iso-8859-15', 'iso-8859-2', 'koi8-r', 'cp1250', 'ISO-8859-1', 'UTF8']


def _dir():
    global _DIR
    if _DIR is None or not os.path.isdir(_DIR):
        _DIR = core.scratch_dir('c03')
    return _DIR


def in_domain(p, enc):
    from .c19 import valid_password, encodable
    return valid_password(p) and encodable(p, enc) and all(pwgen.supported_letter(c) for c in p) and len(p) <= 30 and not p.endswith('\r')


def word(i, length):
    """i-th lower-case word of a given length (base-26 digits, deterministic)."""
    out = []
    for _ in range(length):
        out.append('abcdefghijklmnopqrstuvwxyz'[i % 26])
        i //= 26
    return ''.join(out)


def large_entries(spec):
    """Many distinct values per rules file (the files have > 1000 / > 2000 lines): spec = {'words', 'word_len', 'digits', 'structs'}."""
    entries = []
    for i in range(spec['words']):
        w = word(i + 7, spec['word_len'])
        entries.append([w if i % 3 else w.capitalize(), 1 + (i % 2)])
    for i in range(spec['digits']):
        entries.append(['%05d' % (i * 7 + 3), 1])
    for i in range(spec.get('structs', 0)):
        # many distinct base structures: digit/symbol runs of varying shape
        shape = []
        n = i + 1
        while n:
            shape.append('1' * (1 + n % 3) + '!' * (1 + (n // 3) % 2))
            n //= 6
        entries.append([''.join(shape)[:28], 1])
    return entries


def prop(case, rec):
    from .. import guesser
    enc = case['encoding']
    if 'large' in case:
        case = dict(case, entries=large_entries(case['large']))
    pws = []
    for p, c in case['entries']:
        pws += [p] * c
    path = os.path.join(_dir(), 'train.txt')
    pc = trainer.write_list(path, case['entries'], enc, case.get('spelling', 'plain'))
    rec.cls('list_spelling_' + case.get('spelling', 'plain'))
    out = os.path.join(_dir(), 'R')
    r = guard(case, trainer.train, path, out, encoding=enc, coverage=case['coverage'], ngram=case['ngram'],
              alphabet_size=case['alphabet_size'], prefixcount=pc)
    if not r.ok:
        if r.error is not None and not isinstance(r.error, ZeroDivisionError):
            raise Violation('crash:' + type(r.error).__name__, f'run_trainer raised {r.error!r}', case)
        trainer.skip_or_alarm(rec, r, case, case['entries'], case['alphabet_size'])
        return
    has_m = case['coverage'] != 1
    g = guard(case, guesser.load, out, skip_brute=has_m)
    q = guesser.new_queue(g)
    npt, nguess, total = 0, 0, 0.0
    emitted = set()
    while True:
        it = guard(case, q.next)
        if it is None:
            break
        npt += 1
        size = 1
        for t, i in it['pt']:
            size *= len(g.grammar[t][i]['values'])
        nguess += size
        if npt > 20000 or nguess > 40000:
            rec.skip('language_too_large')
            return
        lines, cnt = guard(case, guesser.capture_guesses, g, it['pt'])
        if cnt != len(lines):
            raise Violation('count', f'pre-terminal {it["pt"]}: reported {cnt}, wrote {len(lines)}', case)
        emitted.update(lines)
        total += it['prob'] * len(lines)
    supported = [(pw, sec) for pw, sec in r.sections if not any(l in ('E', 'W') for _, l in sec)]
    interesting = any((any(ch.isupper() for ch in pw) and len({l[0] for _, l in sec}) >= 2) or
                      sum(1 for i in range(len(sec) - 1) if sec[i][1][0] == 'A' and sec[i + 1][1][0] == 'A') or
                      any(ord(ch) > 127 and ch.isalpha() for ch in pw) for pw, sec in supported)
    cls = ['enc_' + enc, f"coverage_{case['coverage']}"]
    if any(l[0] == 'K' for _, sec in supported for _, l in sec):
        cls.append('keyboard_walk')
    if any(l[0] == 'X' for _, sec in supported for _, l in sec):
        cls.append('context')
    if len(supported) != len(r.sections):
        cls.append('has_unsupported')
    rec.case({'entries': case['entries'][:6], 'n_entries': len(case['entries']), 'encoding': enc, 'coverage': case['coverage'], 'guesses': nguess}, interesting or 'large' in case,
             cls + (['large_list_over_1000_values_per_file'] if 'large' in case else []), key=case.get('large') or case)
    for pw, sec in supported:
        if pw not in emitted:
            raise Violation('not_reproduced', f'training password {pw!r} (segmented as {sec}) is never emitted by the trained grammar '
                            f'({nguess} guesses from {npt} pre-terminals; encoding {enc})', case)
    if supported and abs(total - 1.0) > 1e-9:
        raise Violation('probability_mass', f'probabilities of all emitted guesses sum to {total!r}, not 1', case)


@st.composite
def cases(draw):
    enc = draw(st.sampled_from(ENCODINGS))
    n = draw(st.integers(1, 14))
    entries, seen = [], set()
    for _ in range(n):
        p = draw(pwgen.password(max_frags=3))
        if p in seen or not in_domain(p, enc):
            continue
        seen.add(p)
        entries.append([p, draw(st.sampled_from([1, 1, 2, 3, 5, 6]))])
    base = [['password1', 6], ['Monkey12', 5], ['iloveyou', 5], ['love2019!', 2]]
    if draw(st.integers(0, 2)) == 0:
        # multi-word heavy: base words seen often enough, then 2-4 of them glued together, longer ones before their tails
        words = draw(st.lists(st.sampled_from(['blue', 'horse', 'castle', 'pass', 'word', 'love', 'monkey', 'dragon']), min_size=3, max_size=5, unique=True))
        entries = [[w, draw(st.sampled_from([5, 6, 7]))] for w in words] + entries
        for _ in range(draw(st.integers(2, 6))):
            k = draw(st.sampled_from([2, 3, 3, 4]))
            ws = [draw(st.sampled_from(words)) for _ in range(k)]
            mw = ''.join(ws)
            if draw(st.booleans()):
                mw = mw.capitalize()
            elif draw(st.booleans()):
                # every word in a case style of its own (blueHORSEcastlE): the mask of each word belongs to that word
                mw = ''.join(draw(st.sampled_from([w, w, w.upper(), w.capitalize(), w[:-1] + w[-1].upper()])) for w in ws)
            tail = ''.join(ws[1:])
            for cand in (mw, tail.capitalize() if draw(st.booleans()) else tail):
                if cand not in seen and len(cand) <= 30 and in_domain(cand, enc):
                    seen.add(cand)
                    entries.append([cand, draw(st.sampled_from([1, 1, 2]))])
    if enc in ('utf-8', 'cp1251') and draw(st.booleans()):
        base.append(['Пароль12', 3])
    if enc in ('utf-8', 'latin-1', 'cp1252') and draw(st.booleans()):
        base.append(['Mañana#1', 2])
    if enc in ('iso-8859-15',):
        base += [['100\u20ac', 2], ['c\u0153ur1', 2], ['\u0160koda12', 1]]      # code points whose byte differs from Latin-1
    if enc in ('iso-8859-2', 'cp1250'):
        base += [['\u017e\u00e1ba12', 2], ['\u0141\u00f3d\u017a!', 1]]
    if enc in ('koi8-r',):
        base += [['\u043f\u0430\u0440\u043e\u043b\u044c1', 2]]
    entries += [e for e in base if e[0] not in seen]
    return {'entries': entries, 'encoding': enc, 'coverage': draw(st.sampled_from([0.6, 0.3, 0.9, 1, 0.01])),
            'ngram': draw(st.sampled_from([2, 3, 4, 5])), 'alphabet_size': draw(st.sampled_from([100, 30, 10])),
            'spelling': draw(st.sampled_from(trainer.SPELLINGS))}


def run_main(rec, seed, shard, nshards, tier):
    n = {'quick': 120, 'thorough': 2500}[tier]
    core.hyp_run(rec, prop, cases(), n, seed)


@st.composite
def large_cases(draw):
    spec = {'words': draw(st.sampled_from([0, 990, 1001, 1100, 2001, 2100])), 'word_len': draw(st.sampled_from([5, 7])),
            'digits': draw(st.sampled_from([0, 1000, 1001, 1500, 2003])), 'structs': draw(st.sampled_from([0, 0, 1100]))}
    if not (spec['words'] or spec['digits'] or spec['structs']):
        spec['words'] = 1001
    return {'large': spec, 'encoding': 'utf-8', 'coverage': draw(st.sampled_from([0.6, 1])), 'ngram': 3, 'alphabet_size': 100}


def run_large(rec, seed, shard, nshards, tier):
    n = {'quick': 2, 'thorough': 12}[tier]
    core.hyp_run(rec, prop, large_cases(), n, seed, shrink=False)


# ---------------------------------------------------------------- the two command-line tools, one spelling of the rule
_CLI = [None]


def prop_cli(case, rec):
    """trainer.py -r ARG then pcfg_guesser.py -r ARG (the same spelling, any invocation context): the guesser must find what the
    trainer wrote and emit the training passwords - compared with the same list trained and expanded through the library."""
    import shutil
    import subprocess
    from collections import Counter
    from .. import cli, guesser, session, rsmodel
    if _CLI[0] is None or not os.path.isdir(_CLI[0]):
        _CLI[0] = session.copy_cli(session.make_root('c03cli'))
    root = _CLI[0]
    ctx = case.get('context') or cli.DEFAULT
    rule, spelling = ctx.get('rule', 'T'), case.get('rule_spelling', 'bare')
    entries = case['entries']
    path = os.path.join(_dir(), 'train_cli.txt')
    pc = trainer.write_list(path, entries, 'utf-8', case.get('spelling', 'plain'))
    out = os.path.join(_dir(), 'RC')
    r = guard(case, trainer.train, path, out, encoding='utf-8', coverage=case['coverage'], ngram=case['ngram'], alphabet_size=100, prefixcount=pc)
    if not r.ok:
        rec.skip('trainer_did_not_complete')
        return
    g = guard(case, guesser.load, out, skip_brute=True)
    res = guard(case, guesser.run_queue, g, None, True, 3000)
    if len(res) >= 3000 or sum(len(x[3]) for x in res) > 30000:
        rec.skip('language_too_large')
        return
    want = Counter(l for x in res for l in x[3])
    shutil.rmtree(os.path.join(root, 'Rules'), ignore_errors=True)
    shutil.rmtree(os.path.join(root, 'external rules'), ignore_errors=True)
    os.makedirs(os.path.join(root, 'Rules'))
    rsmodel.write_ruleset(os.path.join(root, 'Rules', 'Default'), cli.DECOY_MODEL)
    if case.get('stale_ruleset'):
        # an older ruleset of the same name is already there (re-training): its words must not come back
        rsmodel.write_ruleset(os.path.join(root, 'Rules', rule), cli.DECOY_MODEL)
    arg = {'bare': rule, 'trailing_separator': rule + os.sep, 'subfolder': os.path.join('team', rule),
           'absolute': os.path.join(root, 'external rules', rule)}[spelling]
    try:
        p1 = cli.run(root, 'trainer.py', ['-t', path, '-r', arg, '-e', 'utf-8', '-c', str(case['coverage']), '-n', str(case['ngram'])] +
                     (['--prefixcount'] if pc else []), ctx, timeout=600, rule_name=rule)
        p2 = cli.run(root, 'pcfg_guesser.py', ['-r', arg, '--skip_brute'], ctx, timeout=300, rule_name=rule)
    except subprocess.TimeoutExpired:
        rec.skip('cli_timeout_inconclusive')
        return
    got = Counter(p2.stdout.decode('utf-8', 'replace').split('\n')[:-1])
    rec.case({'rule_arg': arg, 'context': ctx, 'guesses': sum(want.values())}, len(want) >= 3, ['cli_train_then_guess', 'cli_rule_' + spelling] + cli.label(ctx),
             key=[entries, case['coverage'], case['ngram'], ctx, spelling, case.get('stale_ruleset')])
    if got != want:
        miss, extra = list((want - got).items())[:4], list((got - want).items())[:4]
        raise Violation('cli_train_then_guess', f'trainer.py -r {arg!r} then pcfg_guesser.py -r {arg!r} (started in {ctx.get("cwd")}): the guesser writes '
                        f'{sum(got.values())} guesses, the library pipeline {sum(want.values())}; missing {miss} unexpected {extra}; trainer rc {p1.returncode}, '
                        f'guesser rc {p2.returncode}, guesser stderr tail {p2.stderr.decode("utf-8", "replace")[-200:]}', case)


@st.composite
def cli_cases(draw):
    from .. import cli
    from .c19 import valid_password
    entries, seen = [], set()
    for _ in range(draw(st.integers(1, 6))):
        p_ = draw(pwgen.password(max_frags=3))
        if p_ not in seen and valid_password(p_) and len(p_) <= 20 and in_domain(p_, 'utf-8'):
            seen.add(p_)
            entries.append([p_, draw(st.sampled_from([1, 2, 5]))])
    entries += [e for e in [['password1', 6], ['Monkey12', 5], ['love2019!', 2]] if e[0] not in seen]
    c_ = {'entries': entries, 'coverage': draw(st.sampled_from([0.6, 1])), 'ngram': draw(st.sampled_from([2, 3, 4])),
            'spelling': draw(st.sampled_from(trainer.SPELLINGS)),
            'context': draw(cli.contexts(io_modes=('utf8', 'utf8', 'utf8_strict', 'c_locale') if all(e[0].isascii() for e in entries) else ('utf8', 'utf8', 'utf8_strict'))),
            'rule_spelling': draw(st.sampled_from(['bare', 'trailing_separator', 'subfolder', 'absolute'])), 'stale_ruleset': draw(st.booleans())}
    if c_['context'].get('io') == 'c_locale' and not c_['context']['rule'].isascii():
        c_['context']['rule'] = 'T 2'         # a name the ASCII-only process can write into its own files
    return c_


def run_cli(rec, seed, shard, nshards, tier):
    n = {'quick': 5, 'thorough': 60}[tier]
    core.hyp_run(rec, prop_cli, cli_cases(), n, seed, shrink=(tier == 'thorough'))


PARTS = [
    Part('cli_train_then_guess', run_cli, prop_cli, {'quick': 4, 'thorough': 8}),
    Part('train_then_guess', run_main, prop, {'quick': 8, 'thorough': 16}),
    Part('large_lists', run_large, prop, {'quick': 4, 'thorough': 8}),
]
