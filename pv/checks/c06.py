"""C06 - the saved grammar is the relative-frequency model of the segmentation; Markov pseudo-count
N*(1/coverage-1); E/W structures only in the raw list; training is deterministic."""
import json
import os
import subprocess
import sys
from collections import Counter

from hypothesis import strategies as st

from .. import core, pwgen, segoracle, trainer
from ..core import Part, Violation, guard

RULE = ("Hypothesis-generated training lists (1-40 distinct structured passwords with multiplicities 1-8, so counts tie often; lists "
        "dominated by e-mail/website structures; single-item length classes) x coverage in {0, 0.001, 0.1..0.9, 1} x n-gram 2-5 x "
        "alphabet size; the real run_trainer() runs in-process and the section lists it handed to base_structure_creation are "
        "recorded. Oracle: the harness builds its OWN tallies from those segmentations and recomputes every terminal, mask, base "
        "structure, raw structure and PRINCE list: same item set (each once), probability == count/total (IEEE division), file "
        "order non-increasing, sum 1; Markov pseudo-count N/coverage-N, absent for coverage 1, alone for coverage 0; E/W "
        "structures only in raw_grammar.txt. Determinism: a second in-process run and a subprocess run with another hash seed "
        "must give byte-identical trees apart from the uuid line; re-training list B into a directory that already holds the ruleset of list A must equal training B into an empty directory; trainer.py run as a subprocess must write the same ruleset as run_trainer(). Non-trivial = >=2 distinct structures and >=1 tie in counts; "
        "distinct = hash of (list, options).")
ASSUMPTIONS = ["the segmentation itself is judged by C05; C06 takes the recorded segmentation as given",
               "a run in which the trainer does not complete (no OMEN n-grams, smoothing division by zero) is skipped and counted",
               "order among items with equal counts is not prescribed"]

_DIR = None


def _dir():
    global _DIR
    if _DIR is None or not os.path.isdir(_DIR):
        _DIR = core.scratch_dir('c06')
    return _DIR


def read_list(path, enc):
    data = open(path, 'rb').read().decode(enc)
    out = []
    for line in data.split('\n'):
        if line == '':
            continue
        v, p = line.rsplit('\t', 1)
        out.append((v, p))
    return out


def _sigma(v):
    return v.replace('\u03c2', '\u03c3')


def check_list(case, rel, items, counts, total=None):
    """items: [(value, prob_text)] read from disk; counts: {value: count}."""
    total = sum(counts.values()) if total is None else total
    if rel.startswith(('Alpha/', 'Emails/')) and (any('\u03c2' in v or '\u03c3' in v for v, _ in items) or any('\u03c2' in v or '\u03c3' in v for v in counts)):
        # Greek final sigma: lower-casing a whole section and lower-casing one word can spell the same word with sigma or final
        # sigma; both spellings are accepted and compared merged
        merged_c = Counter()
        for v, c in counts.items():
            merged_c[_sigma(v)] += c
        merged_p = Counter()
        prev = None
        for v, ptxt in items:
            merged_p[_sigma(v)] += float(ptxt)
            if prev is not None and float(ptxt) > prev:
                raise Violation('list_order', f'{rel}: {v!r} is listed after a less probable item', case)
            prev = float(ptxt)
        if set(merged_p) != set(merged_c):
            raise Violation('list_items', f'{rel}: items on disk {sorted(merged_p)[:5]} differ from the tallies {sorted(merged_c)[:5]}', case)
        for v, c in merged_c.items():
            if abs(merged_p[v] - c / total) > 8 * 2.0 ** -52:
                raise Violation('list_probability', f'{rel}: {v!r} has probability {merged_p[v]!r}, its count/total is {c}/{total}', case)
        return
    vals = [v for v, _ in items]
    if Counter(vals) != Counter(counts.keys()):
        a, b = Counter(vals), Counter(counts.keys())
        raise Violation('list_items', f'{rel}: items on disk differ from the tallies of the segmentation: missing {list((b - a).items())[:4]} '
                        f'extra/duplicated {list((a - b).items())[:4]}', case)
    prev = None
    s = 0.0
    for v, ptxt in items:
        p = float(ptxt)
        want = counts[v] / total
        if abs(p - want) > 2 * abs(want) * 2.0 ** -52:
            raise Violation('list_probability', f'{rel}: {v!r} has probability {ptxt}, its count/total is {counts[v]}/{total} = {want!r}', case)
        if prev is not None and p > prev:
            raise Violation('list_order', f'{rel}: {v!r} ({p!r}) is listed after a less probable item ({prev!r})', case)
        prev = p
        s += p
    if items and abs(s - sum(counts.values()) / total) > 1e-9:
        raise Violation('list_sum', f'{rel}: probabilities sum to {s!r}', case)


def by_len(counter):
    out = {}
    for (ln, v), c in counter.items():
        out.setdefault(ln, {})[v] = c
    return out


def expected_files(sections, n_valid, coverage):
    t = {k: Counter() for k in ('alpha', 'masks', 'digits', 'other', 'keyboard', 'years', 'context', 'base', 'raw_base', 'prince',
                                'emails', 'urls')}
    for pw, sec in sections:
        for k, c in segoracle.tallies(sec).items():
            t[k].update(c)
    files = {}
    for name, folder in (('alpha', 'Alpha'), ('masks', 'Capitalization'), ('digits', 'Digits'), ('other', 'Other'), ('keyboard', 'Keyboard')):
        for ln, counts in by_len(t[name]).items():
            files[f'{folder}/{ln}.txt'] = counts
    files['Years/1.txt'] = dict(t['years'])
    files['Context/1.txt'] = dict(t['context'])
    base = dict(t['base'])
    if coverage == 0:
        base = {'M': 1}
    elif coverage != 1:
        base['M'] = n_valid / coverage - n_valid
    files['Grammar/grammar.txt'] = base
    files['Grammar/raw_grammar.txt'] = dict(t['raw_base'])
    files['Prince/grammar.txt'] = dict(t['prince'])
    files['Emails/full_emails.txt'] = dict(t['emails'])
    files['Websites/website_urls.txt'] = dict(t['urls'])
    return files, t


def tree(d):
    out = {}
    for root, dirs, files in os.walk(d):
        for fn in files:
            p = os.path.join(root, fn)
            data = open(p, 'rb').read()
            if fn == 'config.ini':
                data = b'\n'.join(l for l in data.split(b'\n') if not l.startswith(b'uuid'))
            out[os.path.relpath(p, d)] = data
    return out


def write_list(case):
    path = os.path.join(_dir(), 'train.txt')
    pws = []
    for p, c in case['entries']:
        pws += [p] * c
    trainer.write_list(path, case['entries'], 'utf-8', case.get('spelling', 'plain'))
    return path, pws


def prop(case, rec):
    path, pws = write_list(case)
    out = os.path.join(_dir(), 'R')
    kw = dict(encoding='utf-8', coverage=case['coverage'], ngram=case['ngram'], alphabet_size=case['alphabet_size'],
              prefixcount=case.get('spelling', 'plain') != 'plain')
    rec.cls('list_spelling_' + case.get('spelling', 'plain'))
    r = guard(case, trainer.train, path, out, **kw)
    if not r.ok:
        if r.error is not None and not isinstance(r.error, ZeroDivisionError):
            raise Violation('crash:' + type(r.error).__name__, f'run_trainer raised {r.error!r}', case)
        trainer.skip_or_alarm(rec, r, case, case['entries'], case['alphabet_size'])
        return
    n_valid = len(r.passes[0]) if r.passes else len(pws)
    files, t = expected_files(r.sections, n_valid, case['coverage'])
    if len(r.sections) != n_valid:
        raise Violation('passwords_parsed', f'{n_valid} valid passwords but {len(r.sections)} were segmented in the second pass', case)
    counts = sorted(Counter(s for _, sec in r.sections for s in [''.join(l for _, l in sec)]).values())
    structs = len(set(''.join(l for _, l in sec) for _, sec in r.sections))
    tie = len(counts) != len(set(counts))
    cls = [f"coverage_{case['coverage']}"]
    if any(l in ('E', 'W') for _, sec in r.sections for _, l in sec):
        cls.append('unsupported_structures')
    if any(len(v) == 1 for k, v in files.items() if k.split('/')[0] in ('Alpha', 'Digits', 'Other', 'Capitalization')):
        cls.append('single_item_length_class')
    rec.case({'entries': case['entries'][:6], 'coverage': case['coverage'], 'ngram': case['ngram']}, structs >= 2 and tie, cls, key=case)
    for rel, counts_ in files.items():
        full = os.path.join(out, rel)
        if not counts_:
            if os.path.exists(full) and read_list(full, 'utf-8'):
                raise Violation('list_items', f'{rel}: file has entries but the segmentation produced none', case)
            continue
        if not os.path.exists(full):
            raise Violation('list_missing', f'{rel} was not written although the segmentation produced {list(counts_.items())[:3]}', case)
        enc = 'ascii' if rel.startswith(('Grammar/', 'Prince/')) else 'utf-8'
        check_list(case, rel, read_list(full, enc), counts_)
    # no unexpected length files
    for folder in ('Alpha', 'Capitalization', 'Digits', 'Other', 'Keyboard'):
        on_disk = {f'{folder}/{fn}' for fn in os.listdir(os.path.join(out, folder))}
        want = {k for k in files if k.startswith(folder + '/') and files[k]}
        if on_disk != want:
            raise Violation('length_files', f'{folder}: files on disk {sorted(on_disk)} != length classes of the segmentation {sorted(want)}', case)
    # E/W structures only in the raw list
    g = [v for v, _ in read_list(os.path.join(out, 'Grammar/grammar.txt'), 'ascii')]
    if any('E' in s or 'W' in s for s in g):
        raise Violation('unsupported_in_grammar', f'grammar.txt lists a structure with an e-mail/website segment: {[s for s in g if "E" in s or "W" in s][:3]}', case)
    if (case['coverage'] == 1) == ('M' in g):
        raise Violation('markov_structure', f"coverage {case['coverage']}: 'M' {'present' if 'M' in g else 'absent'} in grammar.txt", case)
    if case['coverage'] == 0 and g != ['M']:
        raise Violation('markov_structure', f'coverage 0: grammar.txt should contain only the Markov structure, has {g[:4]}', case)
    # determinism in-process
    if case.get('determinism', True):
        t1 = tree(out)
        out2 = os.path.join(_dir(), 'R2')
        r2 = guard(case, trainer.train, path, out2, **kw)
        t2 = tree(out2)
        if t1 != t2:
            diff = [k for k in set(t1) | set(t2) if t1.get(k) != t2.get(k)]
            raise Violation('nondeterministic', f'two training runs on the same input differ in {diff[:5]}', case)


@st.composite
def cases(draw):
    n = draw(st.integers(1, 30))
    style = draw(st.sampled_from(['mixed', 'mixed', 'mixed', 'unsupported_heavy', 'short']))
    entries = []
    seen = set()
    for _ in range(n):
        if style == 'unsupported_heavy' and draw(st.integers(0, 2)) > 0:
            p = draw(st.sampled_from(pwgen.EMAILISH + pwgen.WEBISH)) + draw(st.sampled_from(['', '1', '!', 'x']))
        elif style == 'short':
            p = draw(st.text('abc12!', min_size=1, max_size=4))
        else:
            p = draw(pwgen.password(max_frags=4))
        from .c19 import valid_password
        if not valid_password(p) or p in seen or len(p) > 40:
            continue
        seen.add(p)
        entries.append([p, draw(st.sampled_from([1, 1, 2, 2, 3, 5, 6, 8]))])
    if not entries:
        entries = [['password1', 2]]
    # enough ordinary material for the OMEN part to complete in most cases
    if draw(st.integers(0, 4)) > 0:
        entries += [['password1', 6], ['monkey12', 5], ['iloveyou', 5], ['love2019!', 2]]
    cov = draw(st.sampled_from([0, 0.001, 0.1, 0.3, 0.5, 0.6, 0.9, 1, 1]))
    return {'entries': entries, 'coverage': cov, 'ngram': draw(st.sampled_from([2, 3, 4, 5])),
            'alphabet_size': draw(st.sampled_from([100, 30, 10, 5])), 'spelling': draw(st.sampled_from(trainer.SPELLINGS))}


def run_main(rec, seed, shard, nshards, tier):
    n = {'quick': 150, 'thorough': 2500}[tier]
    core.hyp_run(rec, prop, cases(), n, seed)


HELPER = r'''
import sys, json
sys.path.insert(0, sys.argv[1]); sys.path.insert(0, sys.argv[2]); sys.dont_write_bytecode = True
import os
os.environ['PV_REPO'] = sys.argv[2]
from pv import trainer
kw = json.loads(sys.argv[5])
r = trainer.train(sys.argv[3], sys.argv[4], **kw)
print(json.dumps({'ok': bool(r.ok)}))
'''


def prop_sub(case, rec):
    path, pws = write_list(case)
    out = os.path.join(_dir(), 'RA')
    kw = dict(encoding='utf-8', coverage=case['coverage'], ngram=case['ngram'], alphabet_size=case['alphabet_size'],
              prefixcount=case.get('spelling', 'plain') != 'plain')
    r = guard(case, trainer.train, path, out, **kw)
    if not r.ok:
        rec.skip('trainer_did_not_complete')
        return
    out2 = os.path.join(_dir(), 'RB')
    here = os.path.dirname(os.path.dirname(os.path.dirname(os.path.abspath(__file__))))
    env = dict(os.environ, PYTHONHASHSEED=str(case['hashseed']))
    p = subprocess.run([sys.executable, '-c', HELPER, here, core.REPO, path, out2, json.dumps(kw)], env=env, capture_output=True, text=True, timeout=600)
    if p.returncode != 0:
        raise Violation('crash:subprocess', p.stderr[-800:], case)
    rec.case({'entries': case['entries'][:4], 'hashseed': case['hashseed']}, len(case['entries']) >= 3, ['subprocess_determinism'], key=case)
    t1, t2 = tree(out), tree(out2)
    if t1 != t2:
        diff = [k for k in set(t1) | set(t2) if t1.get(k) != t2.get(k)]
        raise Violation('nondeterministic_across_processes', f'training in another process (PYTHONHASHSEED={case["hashseed"]}) gives different files: {diff[:5]}', case)


@st.composite
def sub_cases(draw):
    c = draw(cases())
    c['hashseed'] = draw(st.integers(1, 10 ** 6))
    return c


def run_sub(rec, seed, shard, nshards, tier):
    n = {'quick': 4, 'thorough': 60}[tier]
    core.hyp_run(rec, prop_sub, sub_cases(), n, seed, shrink=(tier == 'thorough'))


# ---------------------------------------------------------------- re-training into an existing rule directory
def prop_retrain(case, rec):
    """History: list A is trained into directory X, then list B into the SAME directory; the result must be byte-identical
    (apart from the uuid) to training B into an empty directory - nothing of the earlier run may survive."""
    kw = dict(encoding='utf-8', coverage=case['coverage'], ngram=case['ngram'], alphabet_size=case['alphabet_size'])
    # the directory name carries characters that mean something to glob / fnmatch / regex (legal in a rule name)
    x, y = os.path.join(_dir(), 'R[XY] v1.0+'), os.path.join(_dir(), 'RY')
    pa, _ = write_list(dict(case, entries=case['entries_a']))
    ra = guard(case, trainer.train, pa, x, **kw)
    pb = os.path.join(_dir(), 'train_b.txt')
    pws = []
    for p, c in case['entries']:
        pws += [p] * c
    trainer.write_training_file(pb, pws, 'utf-8')
    rb = guard(case, trainer.train, pb, x, keep_dir=True, **kw)
    rf = guard(case, trainer.train, pb, y, **kw)
    if not (ra.ok and rb.ok and rf.ok):
        if bool(rb.ok) != bool(rf.ok):
            raise Violation('retrain_completion', f're-training completes {bool(rb.ok)} but training into an empty directory {bool(rf.ok)}', case)
        rec.skip('trainer_did_not_complete')
        return
    tx, ty = tree(x), tree(y)
    rec.case({'entries_a': case['entries_a'][:4], 'entries_b': case['entries'][:4]}, True, ['retrain_same_directory'], key=case)
    if tx != ty:
        diff = sorted(k for k in set(tx) | set(ty) if tx.get(k) != ty.get(k))
        raise Violation('stale_files_after_retraining', f're-training list B into a directory that held the ruleset of list A differs from training B '
                        f'into an empty directory in {diff[:6]}', case)



@st.composite
def retrain_cases(draw):
    c = draw(cases())
    a = draw(cases())
    # make same-shaped lists likely: B is A with some words swapped for others of the same length and the same counts
    swap = {'password1': 'sunshine1', 'monkey12': 'dragon12', 'iloveyou': 'princess', 'love2019!': 'blue2018!'}
    if draw(st.booleans()):
        c['entries'] = [[swap.get(p, p[::-1] if p.isalpha() else p), n] for p, n in a['entries']]
    c['entries_a'] = a['entries']
    c['coverage'], c['ngram'], c['alphabet_size'] = a['coverage'], a['ngram'], a['alphabet_size']
    return c


def run_retrain(rec, seed, shard, nshards, tier):
    n = {'quick': 25, 'thorough': 500}[tier]
    core.hyp_run(rec, prop_retrain, retrain_cases(), n, seed)


# ---------------------------------------------------------------- the command line tool gives what the library gives
_CLI = [None]


def prop_cli(case, rec):
    """trainer.py run as a subprocess in a scratch copy of the working tree must write the same ruleset as run_trainer()."""
    from .. import session
    if _CLI[0] is None or not os.path.isdir(_CLI[0]):
        _CLI[0] = session.copy_cli(session.make_root('c06cli'))
    root = _CLI[0]
    path, pws = write_list(case)
    pc = case.get('spelling', 'plain') != 'plain'
    kw = dict(encoding='utf-8', coverage=case['coverage'], ngram=case['ngram'], alphabet_size=max(10, case['alphabet_size']), prefixcount=pc)
    out = os.path.join(_dir(), 'RL')
    r = guard(case, trainer.train, path, out, save_sensitive=False, **kw)
    import shutil
    from .. import cli, rsmodel
    ctx = case.get('context') or cli.DEFAULT
    rule = ctx.get('rule', 'T')
    # how the rule is spelled on the command line: bare name, with a trailing separator (shell completion), inside a sub
    # folder, or as an absolute path - every tool joins the value onto <tool dir>/Rules the same way
    spelling = case.get('rule_spelling', 'bare')
    rules = os.path.join(root, 'Rules')
    shutil.rmtree(rules, ignore_errors=True)
    shutil.rmtree(os.path.join(root, 'external rules'), ignore_errors=True)
    os.makedirs(rules)
    if spelling == 'subfolder':
        arg, cli_dir = os.path.join('team', rule), os.path.join(rules, 'team', rule)
    elif spelling == 'trailing_separator':
        arg, cli_dir = rule + os.sep, os.path.join(rules, rule)
    elif spelling == 'absolute':
        cli_dir = os.path.join(root, 'external rules', rule)
        shutil.rmtree(os.path.dirname(cli_dir), ignore_errors=True)
        arg = cli_dir
    else:
        arg, cli_dir = rule, os.path.join(rules, rule)
    # neighbours in the Rules folder (names a careless pattern match would also hit) and stale files of an earlier training
    sib = {}
    for nm in ('pwa', 'T', rule + '2', 'Default'):
        if os.path.normpath(os.path.join(rules, nm)) != os.path.normpath(cli_dir):
            rsmodel.write_ruleset(os.path.join(rules, nm), cli.DECOY_MODEL)
            sib[nm] = tree(os.path.join(rules, nm))
    if case.get('stale_files'):
        os.makedirs(os.path.join(cli_dir, 'Alpha'), exist_ok=True)
        os.makedirs(os.path.join(cli_dir, 'Digits'), exist_ok=True)
        for fn in ('Alpha/19.txt', 'Digits/17.txt'):
            with open(os.path.join(cli_dir, fn), 'w') as f:
                f.write('stale\t1.0\n')
    lo = case.get('long_options')
    cmd = [('--training' if lo else '-t'), path, ('--rule' if lo else '-r'), arg, ('--encoding' if lo else '-e'), 'utf-8', ('--coverage' if lo else '-c'), str(case['coverage']),
           ('--ngram' if lo else '-n'), str(case['ngram']), ('--alphabet' if lo else '-a'), str(kw['alphabet_size'])] + (['--prefixcount'] if pc else [])
    try:
        p = cli.run(root, 'trainer.py', cmd, ctx, timeout=600, text=True, rule_name=rule)
    except subprocess.TimeoutExpired:
        rec.skip('cli_timeout_inconclusive')
        return
    # where the ruleset went is the tools' business (C03's CLI part checks that the guesser finds it under the same spelling);
    # here: exactly one new ruleset appeared below the tool folder, and it is the one the library writes
    skip = {os.path.normpath(os.path.join(rules, nm)) for nm in sib}
    found = [d for d, _, fs in os.walk(root) if 'config.ini' in fs and os.path.normpath(d) not in skip and 'decoy dir' not in d]
    if len(found) > 1:
        raise Violation('cli_completion', f'trainer.py -r {arg!r} left several new rulesets: {found}', case)
    if found:
        cli_dir = found[0]
    cli_ok = bool(found)
    rec.case({'entries': case['entries'][:4], 'coverage': case['coverage'], 'cli_rc': p.returncode, 'rule_arg': arg, 'context': ctx}, len(case['entries']) >= 3,
             ['cli_trainer', 'cli_rule_' + spelling] + cli.label(ctx) + (['cli_stale_files_present'] if case.get('stale_files') else []), key=case)
    for nm, before in sib.items():
        if tree(os.path.join(rules, nm)) != before:
            raise Violation('neighbour_ruleset_touched', f'trainer.py -r {arg!r}: the neighbouring ruleset Rules/{nm} was modified', case)
    if bool(r.ok) != cli_ok:
        raise Violation('cli_completion', f'run_trainer() completed: {bool(r.ok)}, trainer.py wrote a ruleset: {cli_ok}; output tail: {p.stdout[-300:]}', case)
    if not r.ok:
        rec.skip('trainer_did_not_complete')
        return
    t1, t2 = tree(out), tree(cli_dir)
    if t1 != t2:
        diff = sorted(k for k in set(t1) | set(t2) if t1.get(k) != t2.get(k))
        raise Violation('cli_differs_from_library', f'trainer.py and run_trainer() write different rulesets for the same input and options: {diff[:6]}', case)


def run_cli(rec, seed, shard, nshards, tier):
    n = {'quick': 6, 'thorough': 60}[tier]
    from .. import cli
    strat = st.tuples(cases(), cli.contexts(), st.sampled_from(['bare', 'bare', 'trailing_separator', 'subfolder', 'absolute']), st.booleans(), st.booleans()).map(
        lambda t: dict(t[0], context=t[1], rule_spelling=t[2], stale_files=t[3], long_options=t[4]))
    core.hyp_run(rec, prop_cli, strat, n, seed, shrink=(tier == 'thorough'))


SIGMA_CASE = {'entries': [['\u039b\u038c\u0393\u039f\u03a3:Pass', 1], ['\u03bb\u03cc\u03b3\u03bf\u03c2', 2], ['password1', 6], ['monkey12', 5], ['iloveyou', 5]],
              'coverage': 0.6, 'ngram': 2, 'alphabet_size': 100}


def run_regress(rec, seed, shard, nshards, tier):
    prop(SIGMA_CASE, rec)


PARTS = [
    Part('regression_final_sigma', run_regress, prop, {'quick': 1, 'thorough': 1}),
    Part('relative_frequency', run_main, prop, {'quick': 8, 'thorough': 16}),
    Part('subprocess_determinism', run_sub, prop_sub, {'quick': 4, 'thorough': 8}),
    Part('retrain_same_directory', run_retrain, prop_retrain, {'quick': 4, 'thorough': 8}),
    Part('cli_trainer', run_cli, prop_cli, {'quick': 4, 'thorough': 8}),
]
