"""Core of the harness: violations, recorder, parts, scratch space, repo import, Hypothesis driver."""
import contextlib
import hashlib
import io
import json
import os
import shutil
import sys
import tempfile
import traceback
from collections import Counter

REPO = os.path.realpath(os.environ.get('PV_REPO', '/repo'))


def use_repo():
    """Puts the repository's *working tree* first on sys.path (nothing is written into it)."""
    sys.dont_write_bytecode = True
    if sys.path[0] != REPO:
        if REPO in sys.path:
            sys.path.remove(REPO)
        sys.path.insert(0, REPO)
    return REPO


class HarnessError(Exception):
    pass


class Violation(Exception):
    """The property is violated on `case` (a JSON-able, fully materialised input)."""

    def __init__(self, kind, message, case, finding=None):
        super().__init__(f'{kind}: {message}')
        self.kind = kind
        self.message = message
        self.case = case
        self.finding = finding
        self.part = None


class StopSearch(BaseException):
    """Ends a Hypothesis run at once without shrinking (used after recording a violation whose re-evaluation is very
    expensive, e.g. a work-budget overrun). Not an Exception on purpose: Hypothesis lets it propagate."""


def canon(obj):
    return json.dumps(obj, sort_keys=True, ensure_ascii=True, default=str)


def chash(obj):
    return hashlib.sha1(canon(obj).encode()).hexdigest()[:16]


def thaw(x):
    return x


def _short(obj, limit=1500):
    s = canon(obj)
    if len(s) <= limit:
        return obj
    return {'truncated_json': s[:limit] + '...', 'full_len': len(s)}


class Rec:
    """Per-task recorder of what was explored."""

    def __init__(self, part):
        self.part = part
        self.evaluations = 0
        self.nontrivial = set()
        self.classes = Counter()
        self.skipped = Counter()
        self.samples = []
        self.violations = []
        self.harness_error = None
        self.exhaustive = False
        self._sample_hashes = set()

    def case(self, case, nontrivial=False, classes=(), key=None, n=1):
        """Counts one evaluated case. `key` (or the case itself) identifies it for distinctness."""
        self.evaluations += n
        for c in classes:
            self.classes[c] += 1
        if nontrivial:
            h = chash(key if key is not None else case)
            if h not in self.nontrivial:
                self.nontrivial.add(h)
                if len(self.samples) < 3 and h not in self._sample_hashes:
                    self._sample_hashes.add(h)
                    self.samples.append(_short(case))

    def count(self, n=1):
        self.evaluations += n

    def nontrivial_key(self, key):
        self.nontrivial.add(chash(key))

    def cls(self, *names):
        for c in names:
            self.classes[c] += 1

    def skip(self, reason, n=1):
        self.skipped[reason] += n

    def sample(self, obj):
        if len(self.samples) < 3:
            self.samples.append(_short(obj))

    def add_violation(self, v):
        self.violations.append({'part': self.part, 'kind': v.kind, 'message': v.message,
                                'case': v.case, 'finding': v.finding})

    def to_dict(self):
        return {'part': self.part, 'evaluations': self.evaluations, 'nontrivial': sorted(self.nontrivial),
                'classes': dict(self.classes), 'skipped': dict(self.skipped), 'samples': self.samples,
                'violations': self.violations, 'harness_error': self.harness_error,
                'exhaustive': self.exhaustive}


class Part:
    """One sub-check of a property.

    run(rec, seed, shard, nshards, tier): explores; raises Violation / records via rec.add_violation.
    replay(case, rec): re-executes the oracle on one saved case (no generator involved).
    shards: {'quick': n, 'thorough': m} worker processes.
    """

    def __init__(self, name, run, replay, shards):
        self.name = name
        self.run = run
        self.replay = replay
        self.shards = shards


# ------------------------------------------------------------------ scratch
_SCRATCH = []


def scratch_dir(prefix='pv'):
    base = os.environ.get('PV_SCRATCH')
    if not base:
        base = '/dev/shm' if os.path.isdir('/dev/shm') and os.access('/dev/shm', os.W_OK) else tempfile.gettempdir()
    d = tempfile.mkdtemp(prefix=f'{prefix}-{os.getpid()}-', dir=base)
    _SCRATCH.append(d)
    return d


def cleanup_scratch():
    while _SCRATCH:
        shutil.rmtree(_SCRATCH.pop(), ignore_errors=True)


@contextlib.contextmanager
def quiet(capture_stdout=True):
    """Captures stdout (returned) and silences stderr of the code under test."""
    out = io.StringIO()
    err = io.StringIO()
    with contextlib.redirect_stderr(err):
        if capture_stdout:
            with contextlib.redirect_stdout(out):
                yield out
        else:
            yield out


def crashed_in_repo(exc):
    """True when the innermost frame of the traceback is in the repository's code."""
    tb = traceback.extract_tb(exc.__traceback__)
    if not tb:
        return False
    for fr in reversed(tb):
        fn = os.path.realpath(fr.filename)
        if fn.startswith(REPO + os.sep):
            return True
        if '/pv/' in fn or fn.startswith(os.path.dirname(os.path.abspath(__file__))):
            return False
        # stdlib frames below repo code (e.g. codecs, configparser): keep walking up
    return False


def guard(case, fn, *a, **kw):
    """Calls repository code; an exception whose innermost non-stdlib frame is repository code is a
    violation (the property cannot hold on a sound input if the tool crashes)."""
    try:
        return fn(*a, **kw)
    except Violation:
        raise
    except RecursionError:
        raise
    except Exception as e:
        if crashed_in_repo(e):
            tb = traceback.format_exc()
            raise Violation('crash:' + type(e).__name__, tb[-1500:], case)
        raise


# ------------------------------------------------------------------ Hypothesis driver
def hyp_run(rec, prop, strategy, n, seed, shrink=True, stateful_steps=None):
    """Runs prop(case, rec) over n generated cases. The first Violation is shrunk by Hypothesis (when
    `shrink`) and recorded; unexpected repository crashes are turned into violations by `guard`."""
    from hypothesis import given, settings, seed as hseed, HealthCheck, Phase, Verbosity
    phases = [Phase.generate] + ([Phase.shrink] if shrink else [])
    st = settings(max_examples=n, database=None, deadline=None, derandomize=False,
                  report_multiple_bugs=False, suppress_health_check=list(HealthCheck),
                  phases=phases, print_blob=False, verbosity=Verbosity.quiet)

    @hseed(seed)
    @st
    @given(strategy)
    def t(case):
        try:
            prop(case, rec)
        except (Violation, HarnessError):
            raise
        except RecursionError:
            raise
        except Exception as e:
            # a crash whose innermost relevant frame is repository code is a violation on this (sound) input
            if crashed_in_repo(e):
                raise Violation('crash:' + type(e).__name__, traceback.format_exc()[-1500:], case)
            raise

    try:
        with contextlib.redirect_stdout(sys.stderr):
            t()
    except Violation as v:
        rec.add_violation(v)
        return False
    except StopSearch:
        return False
    return True


def hyp_machine(rec, machine_cls, n, steps, seed, shrink=True):
    from hypothesis import settings, seed as hseed, HealthCheck, Phase, Verbosity
    from hypothesis.stateful import run_state_machine_as_test
    phases = [Phase.generate] + ([Phase.shrink] if shrink else [])
    st = settings(max_examples=n, stateful_step_count=steps, database=None, deadline=None,
                  derandomize=False, report_multiple_bugs=False, suppress_health_check=list(HealthCheck),
                  phases=phases, print_blob=False, verbosity=Verbosity.quiet)
    try:
        with contextlib.redirect_stdout(sys.stderr):
            run_state_machine_as_test(hseed(seed)(machine_cls), settings=st)
    except Violation as v:
        rec.add_violation(v)
        return False
    except StopSearch:
        return False
    return True


def write_replay(here, pid, v):
    d = os.path.join(here, 'replays', pid)
    os.makedirs(d, exist_ok=True)
    body = {'property': pid, 'part': v['part'], 'kind': v['kind'], 'message': v['message'], 'case': v['case']}
    path = os.path.join(d, chash(body) + '.json')
    with open(path, 'w', encoding='utf-8') as f:
        json.dump(body, f, indent=1, ensure_ascii=True, default=str)
    return path


def run_atheris(rec, which, runs, seed, corpus=None, max_len=96, extra_args=(), dictionary=None):
    """Runs pv.fuzz_target in a subprocess (atheris.Fuzz never returns). Records executions / non-trivial inputs; a saved
    violation becomes a Violation with the decoded case. Absence of atheris is reported as a skipped part."""
    import subprocess
    here = os.path.dirname(os.path.dirname(os.path.abspath(__file__)))
    d = scratch_dir('fuzz')
    out, stats, art = os.path.join(d, 'violation.json'), os.path.join(d, 'stats.json'), os.path.join(d, 'artifacts') + os.sep
    os.makedirs(art, exist_ok=True)
    cdir = os.path.join(d, 'corpus')
    os.makedirs(cdir, exist_ok=True)
    for i, item in enumerate(corpus or []):
        with open(os.path.join(cdir, f'seed{i}'), 'wb') as f:
            f.write(item)
    extra_args = list(extra_args)
    if dictionary:
        dpath = os.path.join(d, 'dict.txt')
        with open(dpath, 'w') as f:
            for tok in dictionary:
                f.write('"' + ''.join('\\x%02x' % b for b in tok) + '"\n')
        extra_args.append('-dict=' + dpath)
    env = dict(os.environ, PYTHONPATH=here + os.pathsep + os.path.join(here, '.deps') + os.pathsep + os.environ.get('PYTHONPATH', ''))
    probe = subprocess.run([sys.executable, '-c', 'import atheris'], env=env, capture_output=True)
    if probe.returncode != 0:
        rec.skip('atheris_not_installed')
        return
    cmd = [sys.executable, '-m', 'pv.fuzz_target', which, out, stats, cdir, f'-runs={runs}', f'-seed={seed % (2 ** 31 - 1) or 1}',
           f'-max_len={max_len}', f'-artifact_prefix={art}', '-print_final_stats=1', '-timeout=60'] + list(extra_args)
    p = subprocess.run(cmd, env=env, capture_output=True, text=True, cwd=here)
    st = {}
    if os.path.exists(stats):
        st = json.load(open(stats))
    execs = st.get('execs', 0)
    for line in p.stderr.splitlines():
        if 'number_of_executed_units' in line:
            try:
                execs = max(execs, int(line.split(':')[-1]))
            except ValueError:
                pass
    rec.count(execs)
    rec.classes[f'fuzz_{which}_execs'] += execs
    rec.classes[f'fuzz_{which}_accepted'] += st.get('accepted', 0)
    for i in range(st.get('distinct_nontrivial', 0)):
        rec.nontrivial_key([which, seed, bool(corpus), i])
    for smp in st.get('samples', [])[:2]:
        rec.sample({'fuzz_input': smp})
    if os.path.exists(out):
        v = json.load(open(out))
        raise Violation(v['kind'], v['message'], v['case'])
    if p.returncode != 0:
        raise HarnessError(f'fuzz target {which} ended with exit code {p.returncode}: {p.stderr[-1500:]}')
