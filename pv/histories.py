"""Shared oracle for quit/resume histories of the real pcfg_guesser.main() (used by C12 and C15).

A history is a list of runs; run 0 is a fresh session, every later run is --load. Each run has a schedule of
keyboard events [(position, event), ...] delivered by the harness-owned keyboard (see pv/session.py).

State between runs: `rem` = strings of an interrupted Markov level still to come, `pos` = index into the
uninterrupted stream U from which the rest of the run continues (start of the first pre-terminal whose
probability is <= the saved position). A run has to write rem + U[pos:], or - when an explicit 'q' reached the
keyboard thread - a prefix of it that ends at a pre-terminal boundary or between two Markov guesses, not later than
the end of the pre-terminal that was in progress when the request arrived, with the state saved. Nothing but an
explicit 'q' may shorten a run. With exact ties among pre-terminal probabilities the order inside a tie group may
legitimately differ after a restore, so only the multiset relations are checked for such rulesets.
"""
import os
from collections import Counter

from . import core, session
from .core import Violation, guard


def segments(u):
    """[(start, end, is_markov, prob)] per pop over u.lines."""
    segs = []
    sizes = Counter(u.guess_pop)
    acc = 0
    for i, (pt, prob) in enumerate(u.pops, start=1):
        n = sizes.get(i, 0)
        segs.append((acc, acc + n, pt[0][0] == 'M', prob))
        acc += n
    return segs


def resolve(ev, rem, pos, segs):
    """Turns symbolic positions into concrete ones for the run that is about to start:
    ['markov_guess', k]    -> after the k-th guess (clamped) of the first Markov level this run will generate from scratch,
    ['remainder_guess', k] -> after the k-th guess (clamped) of the restored Markov remainder (falls back to guess k)."""
    out = []
    for posn, e in ev:
        kind, k = posn[0], posn[1]
        if kind in ('markov_guess', 'markov_next'):
            seg = next(((s, en) for s, en, mk, _ in segs if mk and s >= pos and en - s >= 1), None)
            if seg:
                k = len(rem) + (seg[0] - pos) + max(1, min(k, seg[1] - seg[0]))
            out.append([['guess' if kind == 'markov_guess' else 'omen_next', k], e])
        elif kind == 'remainder_guess':
            if rem:
                k = max(1, min(k, len(rem)))
            out.append([['guess', k], e])
        else:
            out.append([[kind, k], e])
    # one event per position
    seen, uniq = set(), []
    for posn, e in out:
        if tuple(posn) in seen:
            continue
        seen.add(tuple(posn))
        uniq.append([posn, e])
    return uniq


STDIN_ERRORS = ('EOFError', 'RuntimeError', 'OSError', 'ValueError')


# pairs of session names (main, neighbour) that live side by side in the tool's folder: related stems, dots, trailing letters of
# '.sav', spaces, non-ASCII
SESSION_PAIRS = [['h', 'h2'], ['run', 'runs'], ['runs', 'run'], ['crack.alpha', 'crack.beta'], ['run.1', 'run.2'], ['data', 'dat'],
                 ['canvas', 'can'], ['s', 'a'], ['my run', 'my'], ['ses\u00e9', 'ses'], ['x.sav', 'x']]


def run_history(case, root, u, schedules, name=None, base_args=('-r', 'T')):
    """Runs the history; raises Violation. Returns a summary dict (for classification).

    case['sessions'] = [main, neighbour] names the session and, optionally with case['neighbour_quits'], lets ANOTHER session of the
    same ruleset (fresh, its own quit points) run between two runs of the main one; nothing of it may leak into the main session."""
    pair = case.get('sessions') or ['h', None]
    name = name or pair[0]
    neighbour = pair[1] if len(pair) > 1 else None
    nq = list(case.get('neighbour_quits') or [])
    U = u.lines
    segs = segments(u)
    probs = [p for _, p in u.pops]
    distinct = len(set(probs)) == len(probs)
    for nm in (name, neighbour):
        for f in ((nm + '.sav', nm + '.omn') if nm else ()):
            try:
                os.remove(os.path.join(root, f))
            except FileNotFoundError:
                pass
    rem, pos = [], 0
    emitted = Counter()
    saved_positions = []
    summary = {'distinct': distinct, 'runs': [], 'quits_inside_markov': 0, 'quits': 0, 'thread_ended_by_stdin': 0,
               'status_requests': 0, 'events_in_remainder': 0, 'non_quit_events': 0}
    args = list(base_args) + ['-s', name]
    finished = False
    scheds = [list(s) for s in schedules]
    ri = 0
    while True:
        ev = scheds[ri] if ri < len(scheds) else []
        ev = resolve(ev, rem, pos if distinct else 0, segs)
        if case.get('process_hashseeds'):
            # every run of the history is a process of its own, each with another string-hash seed (as a user's runs are)
            hs = case['process_hashseeds'][ri % len(case['process_hashseeds'])]
            try:
                r = session.run_main_subprocess(root, args, ev, hashseed=hs, clock_step=case.get('clock_step'), stdin_isatty=case.get('stdin_isatty'))
            except Violation as v:
                v.case = case
                raise
            summary['separate_processes'] = summary.get('separate_processes', 0) + 1
        else:
            r = guard(case, session.run_main, root, args, ev, clock_step=case.get('clock_step'), stdin_isatty=case.get('stdin_isatty'))
        if r.error:
            raise Violation('crash:main', f'run {ri}: main() ended with {r.error}; stderr tail: {r.stderr[-300:]}', case)
        args = list(base_args) + ['-s', name, '--load']
        L = r.lines
        summary['runs'].append(len(L))
        emitted.update(L)
        # ---- what reached the keyboard thread
        quit_ev = None
        for d in r.delivered:
            posn, e, status, snap, alive_after = d
            if status != 'ok':
                continue
            interleaved = isinstance(e, dict) and 'interleaved' in e
            if interleaved:
                e = e['interleaved']
                summary['interleaved_events'] = summary.get('interleaved_events', 0) + 1
                d = [posn, e, status, snap, alive_after, True]
            if e == 'q':
                if quit_ev is None:
                    quit_ev = d
                    summary['quits'] += 1
                continue
            summary['non_quit_events'] += 1
            if snap and rem and snap[1] < len(rem):
                summary['events_in_remainder'] += 1
            if isinstance(e, dict) and e.get('raise') in STDIN_ERRORS:
                summary['thread_ended_by_stdin'] += 1
            if e in ('', 'h'):
                summary['status_requests'] += 1
                if posn and posn[0] == 'before_expand':
                    summary['status_before_expansion'] = summary.get('status_before_expansion', 0) + 1
                if not alive_after:
                    raise Violation('keyboard_thread_died_on_status', f'run {ri}: the keyboard thread terminated on a status/help request '
                                    f'({e!r} at {posn}); later quit requests can no longer be received. thread errors: {getattr(r, "thread_errors", [])}', case)
        delivered_quit = quit_ev is not None
        stopped_in_level = False
        bound = None
        if distinct:
            E = rem + U[pos:]
            if L != E[:len(L)]:
                k = next((i for i, (a, b) in enumerate(zip(L, E)) if a != b), min(len(L), len(E)))
                raise Violation('stream_altered', f'run {ri}: output diverges from what is left of the uninterrupted stream at its line {k}: '
                                f'got {L[k:k + 4]}, expected {E[k:k + 4]} (remainder of level {len(rem)}, stream position {pos} of {len(U)}); '
                                f'events {r.delivered}', case)
            if len(L) == len(E):
                finished = True
                if delivered_quit and len(quit_ev) <= 5:
                    # the whole stream was written although a quit request had reached the keyboard thread: fine only if the
                    # request arrived while the last pre-terminal was in progress (or later)
                    ng = quit_ev[3][1]
                    if quit_ev[0][0] in ('guess', 'omen_next'):
                        ngs = ng + 1 if quit_ev[0][0] == 'omen_next' else ng
                        if ngs <= len(rem):
                            limit = len(rem)
                        else:
                            jpos = pos + ngs - len(rem)
                            js = next(((s_, e_) for s_, e_, mk, _ in segs if s_ < jpos <= e_), None)
                            limit = len(rem) + (js[1] - pos) if js else len(L)
                    else:
                        limit = ng
                    if len(L) > limit and len(E) > limit:
                        raise Violation('quit_ignored', f'run {ri}: a quit request reached the keyboard thread after guess {ng} ({quit_ev[0]}) but the run went on '
                                        f'to the end of the stream ({len(L)} lines; the pre-terminal in progress ended at {limit}); events {r.delivered}', case)
            elif not delivered_quit:
                raise Violation('stream_shortened', f'run {ri} stopped after {len(L)} of {len(E)} lines although no quit was requested; '
                                f'events {r.delivered}', case)
            else:
                ng = quit_ev[3][1]
                at_guess = quit_ev[0][0] in ('guess', 'omen_next')
                if len(L) < ng:
                    raise core.HarnessError('fewer lines than guesses at delivery')
                if len(L) < len(rem):
                    new_rem, a = rem[len(L):], None          # stopped inside the restored remainder
                    stopped_in_level = True
                    bound = pos
                else:
                    a = pos + len(L) - len(rem)
                    seg = next(((s, e, mk) for s, e, mk, _ in segs if s < a < e), None)
                    if seg is None:
                        new_rem, bound = [], a                # at a pre-terminal boundary
                    elif seg[2]:
                        new_rem, bound = U[a:seg[1]], seg[1]  # between two Markov guesses
                        stopped_in_level = True
                    else:
                        raise Violation('quit_inside_preterminal', f'run {ri}: quit stopped at stream position {a}, inside a non-Markov pre-terminal', case)
                # promptness: not past the end of the pre-terminal in progress when the request arrived (not judged for an
                # interleaved request: the keyboard thread is still working on it while generation goes on)
                if len(quit_ev) > 5:
                    pass
                elif not at_guess:
                    if len(L) != ng:
                        raise Violation('quit_late', f'run {ri}: quit requested between two pre-terminals after {ng} guesses but {len(L)} were written', case)
                else:
                    ngs = ng + 1 if quit_ev[0][0] == 'omen_next' else ng     # the guess whose pre-terminal is in progress
                    if ngs <= len(rem):
                        limit = len(rem)
                    else:
                        jpos = pos + ngs - len(rem)
                        js = next(((s, e) for s, e, mk, _ in segs if s < jpos <= e), None)
                        limit = len(rem) + (js[1] - pos) if js else len(L)
                    if len(L) > limit:
                        raise Violation('quit_late', f'run {ri}: quit requested after guess {ng} but generation went on to {len(L)} lines, past the end of '
                                        f'that pre-terminal ({limit})', case)
                rem = new_rem
        else:
            if not delivered_quit:
                finished = True
        if finished:
            break
        if not delivered_quit:
            break
        # ---- a quit was honoured: the state must have been saved before the run returned
        gi = (r.sav or {}).get('guessing_info', {})
        if not distinct and r.exhausted and not r.saved_on_quit:
            finished = True        # the request arrived during the last pre-terminal and the run completed
            break
        if 'max_probability' not in gi or not r.saved_on_quit:
            raise Violation('no_save', f'run {ri}: stopped on a quit request with guesses left, but the session state was not saved '
                            f'(saves during the run at (pops, guesses): {r.saves}): {r.sav}', case)
        sp = float(gi['max_probability'])
        saved_positions.append(sp)
        if distinct:
            if stopped_in_level:
                summary['quits_inside_markov'] += 1
                if 'omen_guess_number' not in gi:
                    raise Violation('no_omen_state', f'run {ri}: stopped inside a Markov level but the save file has no omen_guess_number: {gi}', case)
                if not os.path.exists(os.path.join(root, name + '.omn')):
                    raise Violation('no_omen_state', f'run {ri}: stopped inside a Markov level but no .omn file was written', case)
            idx = next((i for i, p in enumerate(probs) if p <= sp), len(probs))
            new_pos = segs[idx][0] if idx < len(segs) else len(U)
            if new_pos > bound:
                raise Violation('lost_guesses', f'run {ri}: saved position {sp!r} skips un-emitted pre-terminals (stream positions {bound}..{new_pos})', case)
            for s, e, mk, p in segs:
                if new_pos <= s < bound and p != sp:
                    raise Violation('repeat_not_tied', f'run {ri}: saved position {sp!r} makes the resume repeat a pre-terminal of probability {p!r}', case)
            pos = new_pos
        if neighbour and nq:
            # the neighbour session: started fresh, quits at its own point (or runs to the end), saved next to the main one
            k = nq.pop(0)
            nev = [(('guess', k), 'q')] if k else []
            nr = guard(case, session.run_main, root, list(base_args) + ['-s', neighbour], nev)
            if nr.error:
                raise Violation('crash:main', f'neighbour session {neighbour!r}: main() ended with {nr.error}; stderr tail: {nr.stderr[-300:]}', case)
            summary['neighbour_runs'] = summary.get('neighbour_runs', 0) + 1
        ri += 1
        if ri > len(scheds) + 2:
            raise Violation('never_finishes', f'history needs more than {ri} runs without any further quit', case)
    if not distinct:
        want = Counter(U)
        if want - emitted:
            raise Violation('lost_guesses', f'never written over the whole history: {list((want - emitted).items())[:6]}', case)
        extra = emitted - want
        if extra:
            allowed = Counter()
            for (s, e, mk, prob) in segs:
                if prob in saved_positions:
                    allowed.update(U[s:e] * (len(saved_positions) + 1))
            if extra - allowed:
                raise Violation('repeat_not_tied', f'repeated guesses that do not belong to a pre-terminal tied with a saved position: '
                                f'{list((extra - allowed).items())[:6]}', case)
    summary['saved_positions'] = saved_positions
    return summary
