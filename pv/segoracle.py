"""Validity predicates for the trainer's segmentation (C05) and the tallies they imply (C05/C06).
Many tilings can be legitimate, so the oracle checks soundness conditions, not one expected answer."""
import re
from collections import Counter

from . import pwgen

LABEL_RE = re.compile(r'^(A\d+|D\d+|O\d+|K\d+|Y1|X1|E|W)$')
THRESHOLD, MIN_LEN, MAX_LEN = 5, 4, 21


class MWModel:
    """Dict model of the multi-word detector's training: for a trained password with MIN_LEN <= len <= MAX_LEN every
    maximal alphabetic run of its lower-cased form that is at least MIN_LEN long counts once."""

    def __init__(self, threshold=THRESHOLD, min_len=MIN_LEN, max_len=MAX_LEN):
        self.counts = {}
        self.threshold, self.min_len, self.max_len = threshold, min_len, max_len

    def train(self, password, set_threshold=False):
        if len(password) < self.min_len or len(password) > self.max_len:
            return
        low = password.lower()
        runs, cur = [], ''
        for c in low:
            if c.isalpha():
                cur += c
            else:
                if cur:
                    runs.append(cur)
                cur = ''
        if cur:
            runs.append(cur)
        for run in runs:
            if len(run) >= self.min_len:
                if run not in self.counts:
                    self.counts[run] = self.threshold if set_threshold else 1
                else:
                    self.counts[run] += 1

    def count(self, s):
        return self.counts.get(s.lower(), 0)


def lower_keep_length(s):
    """Lower-casing as the stored (lower-cased) forms can have it: one character stays one character (only U+0130 differs)."""
    low = s.lower()                      # context-sensitive (Greek final sigma), like the code base's lower-casing
    if len(low) == len(s):
        return low
    return ''.join(c.lower() if len(c.lower()) == 1 else c for c in s)


def tiling_error(password, sections):
    """None if the segments tile the password left to right (W segments are kept lower-cased)."""
    pos = 0
    for text, label in sections:
        if label == 'W':
            ok = False
            chunk = password[pos:pos + len(text)]
            # Greek capital sigma lower-cases to 'ς' (whole-string lower(), word-final) or 'σ' (character by character, which is what
            # the code does when another character of the password changes length under lower()): both are the lower-cased text
            fs = lambda x: x.replace('\u03c2', '\u03c3')
            if lower_keep_length(chunk) == text or chunk.lower() == text or fs(lower_keep_length(chunk)) == fs(text) or \
                    ''.join(c.lower() if len(c.lower()) == 1 else c for c in chunk) == text:
                pos += len(text)
                ok = True
            if not ok:
                return f'website segment {text!r} is not the lower-cased text at position {pos} ({password[pos:pos + len(text)]!r})'
        else:
            if not password.startswith(text, pos):
                return f'segment {text!r} ({label}) does not match the password at position {pos} ({password[pos:pos + len(text)]!r})'
            pos += len(text)
    if pos != len(password):
        return f'segments cover {pos} of {len(password)} characters'
    return None


def check_sections(password, sections, mw):
    """Returns (kind, message) of the first violated predicate, or None."""
    if sections is None:
        return 'no_sections', 'parse produced no segmentation'
    for text, label in sections:
        if label is None or not LABEL_RE.match(label):
            return 'untyped', f'segment {text!r} has label {label!r}'
        if text == '':
            return 'empty_segment', f'empty segment with label {label}'
    err = tiling_error(password, sections)
    if err:
        return 'tiling', err
    for i, (text, label) in enumerate(sections):
        c = label[0]
        if c in 'ADOK' and int(label[1:]) != len(text):
            return 'label_length', f'segment {text!r} is labelled {label} but has {len(text)} characters'
        if c == 'D':
            if not all(ch.isdigit() for ch in text):
                return 'digit_unsound', f'digit segment {text!r} contains a non-digit'
            if i + 1 < len(sections) and sections[i + 1][1][0] == 'D':
                return 'digit_not_maximal', f'adjacent digit segments {text!r} and {sections[i + 1][0]!r}'
            # a year is only a year when no digit touches it, so a digit segment next to a year segment is a digit run cut in two
            for j in (i - 1, i + 1):
                if 0 <= j < len(sections) and sections[j][1][0] == 'Y':
                    return 'digit_not_maximal', f'digit segment {text!r} touches the year segment {sections[j][0]!r}'
        elif c == 'A':
            if not all(ch.isalpha() for ch in text):
                return 'alpha_unsound', f'alpha segment {text!r} contains a non-letter'
        elif c == 'Y':
            if not (len(text) == 4 and text[:2] in ('19', '20') and text[2].isdigit() and text[3].isdigit()):
                return 'year_unsound', f'year segment {text!r}'
        elif c == 'K':
            kinds = {('a' if ch.isalpha() else 'd' if ch.isdigit() else 'o') for ch in text}
            if len(text) < 4 or not pwgen.is_walk(text) or len(kinds) < 2:
                return 'keyboard_unsound', f'keyboard segment {text!r} (walk={pwgen.is_walk(text)}, classes={sorted(kinds)})'
        elif c == 'X':
            if text not in pwgen.CONTEXT:
                return 'context_unsound', f'context segment {text!r} is not in the fixed list'
        elif c == 'O':
            if any(ch.isalpha() or ch.isdigit() for ch in text):
                return 'other_unsound', f"'other' segment {text!r} contains a letter or digit"
    # multi-word rule over groups of adjacent alpha segments
    i = 0
    while i < len(sections):
        if sections[i][1][0] == 'A':
            j = i
            while j < len(sections) and sections[j][1][0] == 'A':
                j += 1
            parts = [t for t, _ in sections[i:j]]
            if len(parts) > 1:
                whole = ''.join(parts)
                for p in parts:
                    if len(p) < mw.min_len or mw.count(p) < mw.threshold:
                        return 'multiword_unsound', f'alpha run {whole!r} split into {parts} but part {p!r} has count {mw.count(p)} (threshold {mw.threshold})'
                if mw.count(whole) >= mw.threshold:
                    return 'multiword_unsound', f'alpha run {whole!r} split into {parts} although the whole was seen {mw.count(whole)} times'
                if not (2 * mw.min_len <= len(whole) < mw.max_len):
                    return 'multiword_unsound', f'alpha run {whole!r} of length {len(whole)} split into {parts}'
            i = j
        else:
            i += 1
    return None


def tallies(sections):
    """The counters implied by one segmentation: name -> Counter (length-indexed ones keyed by (len, item))."""
    t = {k: Counter() for k in ('alpha', 'masks', 'digits', 'other', 'keyboard', 'years', 'context', 'base', 'raw_base', 'prince',
                                'emails', 'urls')}
    labels = []
    supported = True
    for text, label in sections:
        labels.append(label)
        t['prince'][label] += 1
        c = label[0]
        if c == 'A':
            t['alpha'][(len(text), lower_keep_length(text))] += 1
            t['masks'][(len(text), ''.join('U' if ch.isupper() else 'L' for ch in text))] += 1
        elif c == 'D':
            t['digits'][(len(text), text)] += 1
        elif c == 'O':
            t['other'][(len(text), text)] += 1
        elif c == 'K':
            t['keyboard'][(len(text), text)] += 1
        elif c == 'Y':
            t['years'][text] += 1
        elif c == 'X':
            t['context'][text] += 1
        elif c == 'E':
            supported = False
            t['emails'][lower_keep_length(text)] += 1
        elif c == 'W':
            supported = False
            t['urls'][text] += 1
    bs = ''.join(labels)
    t['raw_base'][bs] += 1
    if supported:
        t['base'][bs] += 1
    return t


def parser_counters(parser):
    """The real parser's counters in the same shape as tallies()."""
    def flat(d):
        c = Counter()
        for ln, cnt in d.items():
            for k, v in cnt.items():
                c[(ln, k)] += v
        return c
    return {'alpha': flat(parser.count_alpha), 'masks': flat(parser.count_alpha_masks), 'digits': flat(parser.count_digits),
            'other': flat(parser.count_other), 'keyboard': flat(parser.count_keyboard), 'years': Counter(parser.count_years),
            'context': Counter(parser.count_context_sensitive), 'base': Counter(parser.count_base_structures),
            'raw_base': Counter(parser.count_raw_base_structures), 'prince': Counter(parser.count_prince),
            'emails': Counter(parser.count_emails), 'urls': Counter(parser.count_website_urls)}
