"""Drives the real trainer (lib_trainer) from /repo's working tree and records its internals by wrapping
module-level callables from outside (no source hooks)."""
import contextlib
import io
import os
import shutil

from . import core

core.use_repo()

VERSION = '4.7'


def program_info(training_file, encoding='utf-8', coverage=0.6, ngram=4, alphabet_size=100, prefixcount=False,
                 multiword=False, rule_name='T', save_sensitive=True):
    return {'name': 'PCFG Trainer', 'version': VERSION, 'author': 'Matt Weir', 'contact': 'cweir@vt.edu', 'rule_name': rule_name,
            'training_file': training_file, 'encoding': encoding, 'comments': '', 'save_sensitive': save_sensitive,
            'prefixcount': prefixcount, 'ngram': ngram, 'alphabet_size': alphabet_size, 'alphabet': '', 'smoothing': 0.01,
            'coverage': coverage, 'max_len': 21, 'multiword': multiword}


_CALLER_INFO = {}      # the one dict a library caller that trains several lists in a row keeps and updates (see train())


class TrainResult:
    def __init__(self):
        self.ok = None              # what run_trainer returned (True / False / None)
        self.error = None           # exception escaping run_trainer
        self.stdout = ''
        self.sections = []          # [(password, [(text, label), ...])] in pass-2 order
        self.parser = None          # live PCFGPasswordParser
        self.omen_trainer = None
        self.omen_keyspace = None
        self.omen_levels_count = None
        self.num_valid_passwords = None
        self.passes = []            # list of password sequences, one per TrainerFileInput over the training file
        self.file_inputs = []


def train(pwfile, outdir, keep_dir=False, **kw):
    """Runs the real run_trainer() in-process. Returns TrainResult. keep_dir=True re-trains into an existing rule directory
    (what 'trainer.py -r <existing rule>' does) instead of starting from an empty one."""
    import lib_trainer.run_trainer as rt
    import lib_trainer.pcfg_password_parser as pp
    from lib_trainer.trainer_file_output import create_rule_folders
    res = TrainResult()
    # run_trainer() writes into its caller's program_info (the 'alphabet' key on the unchanged tree), so a caller that trains several
    # lists in one process naturally hands the SAME dict in again with its own keys updated. Every training of a shard does that:
    # whatever an earlier call left in the dict is still there, and may not influence this training (C06-r16: a password count kept
    # with dict.setdefault). The first training of each process sees a fresh dict.
    pi = _CALLER_INFO
    mine = program_info(pwfile, **kw)
    if 'alphabet' in pi:
        del mine['alphabet']
    pi.update(mine)
    if not keep_dir:
        shutil.rmtree(outdir, ignore_errors=True)
    saved = {'save_pcfg_data': rt.save_pcfg_data, 'save_omen': rt.save_omen_rules_to_disk, 'bsc': pp.base_structure_creation,
             'tfi': rt.TrainerFileInput, 'parse': pp.PCFGPasswordParser.parse}
    cur = {'pw': None}

    def bsc(section_list):
        res.sections.append((cur['pw'], [tuple(s) for s in section_list]))
        return saved['bsc'](section_list)

    def parse(self, password):
        cur['pw'] = password
        res.parser = self
        return saved['parse'](self, password)

    def save_pcfg(base_directory, pcfg_parser, encoding, save_sensitive):
        res.parser = pcfg_parser
        return saved['save_pcfg_data'](base_directory, pcfg_parser, encoding, save_sensitive)

    def save_omen(omen_trainer, omen_keyspace, omen_levels_count, num_valid_passwords, base_directory, program_info):
        res.omen_trainer, res.omen_keyspace, res.omen_levels_count = omen_trainer, omen_keyspace, omen_levels_count
        res.num_valid_passwords = num_valid_passwords
        return saved['save_omen'](omen_trainer, omen_keyspace, omen_levels_count, num_valid_passwords, base_directory, program_info)

    class RecordingInput(saved['tfi']):
        def __init__(self, filename, *a, **k):
            super().__init__(filename, *a, **k)
            self._rec = []
            if filename == pwfile:
                res.passes.append(self._rec)
                res.file_inputs.append(self)

        def read_password(self):
            for p in super().read_password():
                self._rec.append(p)
                yield p

    buf = io.StringIO()
    try:
        rt.save_pcfg_data = save_pcfg
        rt.save_omen_rules_to_disk = save_omen
        rt.TrainerFileInput = RecordingInput
        pp.base_structure_creation = bsc
        pp.PCFGPasswordParser.parse = parse
        with contextlib.redirect_stdout(buf), contextlib.redirect_stderr(io.StringIO()):
            create_rule_folders(outdir)
            try:
                res.ok = rt.run_trainer(pi, outdir)
            except Exception as e:          # noqa: the caller decides what an exception means
                res.error = e
    finally:
        rt.save_pcfg_data = saved['save_pcfg_data']
        rt.save_omen_rules_to_disk = saved['save_omen']
        rt.TrainerFileInput = saved['tfi']
        pp.base_structure_creation = saved['bsc']
        pp.PCFGPasswordParser.parse = saved['parse']
    res.stdout = buf.getvalue()
    res.program_info = dict(pi)
    return res


def write_training_file(path, passwords, encoding='utf-8', newline='\n'):
    with open(path, 'wb') as f:
        if encoding.lower().replace('_', '-') == 'utf-8-sig':      # one byte order mark at the start of the file, not one per line
            f.write(b'\xef\xbb\xbf')
            encoding = 'utf-8'
        for p in passwords:
            f.write(p.encode(encoding) + newline.encode('ascii'))
    return path


def write_counted_file(path, entries, encoding='utf-8', newline='\n', pad=0):
    """[(password, count)] in `sort | uniq -c` layout (count right-aligned in `pad` columns, one space, the password):
    the --prefixcount spelling of the list that write_training_file writes expanded."""
    with open(path, 'wb') as f:
        for p, c in entries:
            f.write(str(c).rjust(pad).encode('ascii') + b' ' + p.encode(encoding) + newline.encode('ascii'))
    return path


SPELLINGS = ['plain', 'plain', 'prefix', 'prefix_padded']
ORDINARY = ('password1', 'monkey12', 'iloveyou', 'love2019!')


def must_complete(entries, alphabet_size=100, encoding='utf-8'):
    """True when training may not be skipped as 'did not complete': the list holds ordinary material (the four passwords above, which
    give the OMEN part n-grams at every n-gram size used) and the OMEN alphabet (the `alphabet_size` most frequent characters of the
    list) is certain to hold every character of the list. Measured on the unchanged tree over 900 generated lists: every
    non-completion had an alphabet of 5 (or 10 with 5-grams) or lacked that material; a thorough run then met a list whose 30
    most frequent characters came from one long password repeated eight times, so that no ordinary password started inside the
    alphabet (ZeroDivisionError in the OMEN smoothing, the same legitimate give-up) - hence the condition on the number of distinct
    characters rather than on the alphabet size alone. Without this guard a change that makes the trainer abort more often would
    only raise a skip counter."""
    have = {e[0].lower() for e in entries}          # the lists spell some of them with a capital (Monkey12)
    distinct = {ch for e in entries for ch in e[0]}
    return alphabet_size >= 30 and len(distinct) <= alphabet_size and all(w in have for w in ORDINARY)


def skip_or_alarm(rec, r, case, entries, alphabet_size=100):
    from .core import Violation
    if must_complete(entries, alphabet_size):
        raise Violation('unexpected_abort', f'run_trainer did not complete on a list with ordinary passwords (alphabet {alphabet_size}): returned {r.ok!r}, '
                        f'error {r.error!r}; output tail: {r.stdout[-300:]}', case)
    rec.skip('trainer_did_not_complete')


def write_list(path, entries, encoding='utf-8', spelling='plain'):
    """Writes [(password, count)] expanded ('plain') or in --prefixcount spelling; returns the prefixcount flag to train with."""
    if spelling == 'plain':
        write_training_file(path, [p for p, c in entries for _ in range(c)], encoding)
        return False
    write_counted_file(path, entries, encoding, pad=7 if spelling == 'prefix_padded' else 0)
    return True


def new_parser(threshold=5, min_len=4, max_len=21):
    """A fresh real MultiWordDetector + PCFGPasswordParser."""
    from lib_trainer.detection_rules.multiword_detector import MultiWordDetector
    from lib_trainer.pcfg_password_parser import PCFGPasswordParser
    mw = MultiWordDetector(threshold=threshold, min_len=min_len, max_len=max_len)
    return mw, PCFGPasswordParser(mw)


def parse_recording(parser, password):
    """Runs the real parser.parse(password) and returns the section_list handed to base_structure_creation."""
    import lib_trainer.pcfg_password_parser as pp
    orig = pp.base_structure_creation
    got = []

    def bsc(section_list):
        got.append([tuple(s) for s in section_list])
        return orig(section_list)

    pp.base_structure_creation = bsc
    try:
        with contextlib.redirect_stdout(io.StringIO()):
            parser.parse(password)
    finally:
        pp.base_structure_creation = orig
    return got[0] if got else None
