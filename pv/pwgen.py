"""G-password / G-traininglist: structured concatenation of fragments so that the detectors' trigger patterns
interleave and overlap; plus the harness' own copy of the fixed tables (keyboard layouts, context strings, TLDs)."""
from hypothesis import strategies as st

# ---- own copy of the fixed tables the property refers to (specification data, not code under test)
LAYOUTS = {
    'qwerty': [
        (['1', '2', '3', '4', '5', '6', '7', '8', '9', '0', '-', '='], ['!', '@', '#', '$', '%', '^', '&', '*', '(', ')', '_', '+']),
        (['q', 'w', 'e', 'r', 't', 'y', 'u', 'i', 'o', 'p', '[', ']', '\\'], ['Q', 'W', 'E', 'R', 'T', 'Y', 'U', 'I', 'O', 'P', '{', '}', '|']),
        (['a', 's', 'd', 'f', 'g', 'h', 'j', 'k', 'l', ';', '\''], ['A', 'S', 'D', 'F', 'G', 'H', 'J', 'K', 'L', ':', '"']),
        (['z', 'x', 'c', 'v', 'b', 'n', 'm', ',', '.', '/'], ['Z', 'X', 'C', 'V', 'B', 'N', 'M', '<', '>', '?']),
    ],
    'jcuken': [
        (['1', '2', '3', '4', '5', '6', '7', '8', '9', '0', '-', '='], ['!', '"', '№', ';', '%', ':', '?', '*', '(', ')', '_', '+']),
        (['й', 'ц', 'у', 'к', 'е', 'н', 'г', 'ш', 'щ', 'з', 'х', 'ъ', '\\'], ['Й', 'Ц', 'У', 'К', 'Е', 'Н', 'Г', 'Ш', 'Щ', 'З', 'Х', 'Ъ', '/']),
        (['ф', 'ы', 'в', 'а', 'п', 'р', 'о', 'л', 'д', 'ж', 'э'], ['Ф', 'Ы', 'В', 'А', 'П', 'Р', 'О', 'Л', 'Д', 'Ж', 'Э']),
        (['я', 'ч', 'с', 'м', 'и', 'т', 'ь', 'б', 'ю'], ['Я', 'Ч', 'С', 'М', 'И', 'Т', 'Ь', 'Б', 'Ю', ',']),
    ],
}
CONTEXT = [';p', ':p', '*0*', '#1', 'No.1', 'no.1', 'No.', 'i<3', 'I<3', '<3', 'Mr.', 'mr.', 'MR.', 'MS.', 'Ms.', 'ms.', 'Mz.', 'mz.',
           'MZ.', 'St.', 'st.', 'Dr.', 'dr.']
TLDS = ['.com', '.org', '.edu', '.gov', '.uk', '.net', '.ca', '.de', '.jp', '.fr', '.au', '.us', '.ru', '.ch', '.it', '.nl', '.se', '.no',
        '.es', '.mil']


def key_positions(ch):
    """{layout: (row, pos)} - a key is found in the plain row first, then in the shifted row (first row that has it)."""
    out = {}
    for name, rows in LAYOUTS.items():
        for r, (plain, shifted) in enumerate(rows, start=1):
            if ch in plain:
                out[name] = (r, plain.index(ch))
                break
            if ch in shifted:
                out[name] = (r, shifted.index(ch))
                break
    return out


def adjacent(a, b):
    """Layouts on which key b is a neighbour of key a (same row +-1; row below: same or one to the left; row above: same or
    one to the right)."""
    pa, pb = key_positions(a), key_positions(b)
    res = set()
    for name in pa:
        if name not in pb:
            continue
        (r1, c1), (r2, c2) = pa[name], pb[name]
        if r1 == r2 and abs(c1 - c2) == 1:
            res.add(name)
        elif r2 == r1 + 1 and c2 in (c1, c1 - 1):
            res.add(name)
        elif r2 == r1 - 1 and c2 in (c1, c1 + 1):
            res.add(name)
    return res


def is_walk(s):
    """Consecutive characters adjacent on one common layout."""
    if len(s) < 2:
        return False
    common = None
    for a, b in zip(s, s[1:]):
        adj = adjacent(a, b)
        common = adj if common is None else common & adj
        if not common:
            return False
    return True


# ---------------------------------------------------------------- fragments
WORDS = ['pass', 'word', 'love', 'monkey', 'dragon', 'secret', 'blue', 'test', 'iloveyou', 'пароль', 'привет', 'λόγος', 'mañana',
         'straße', 'abcd', 'cat', 'ab', 'x', 'qwertyuiopasdfghjklzx']
SYMBOLS = ['!', '@', '#', '$', '.', '-', '_', ' ', '  ', '€', '\U0001F600', ' ', '%', '&', '*', '?', '/', ':', ';', '<', '(', '"',
           # non-letters that str.lower()/upper() nevertheless change (circled letters, roman numerals: categories So / Nl)
           '\u24b6', '\u24d0', '\u2167', '\u2177', '\u24c2\u24c2',
           # symbol runs that look like a comment marker or a blank once they are a line of a rules file (C03-r17)
           '# ', '# #', '; ', '// ']
UNIDIGITS = ['²', '٣', '５']
SPECIAL = {
    'U0130': ['\u0130', 'a\u0130b', '\u0130stanbul'],          # lower() changes the length
    'case_odd': ['\u00df', '\u1e9e', '\u01c5', '\u03f4', '\u212a'],   # case mapping not one-to-one
    'U2029': ['\u2029', 'ab\u2029cd'],
    'nbsp_etc': ['\u00a0', '\u3000', '\u200b', '\ufeff'],
}
EMAILISH = ['bob@gmail.com', 'x@y.ru', 'a.b@c.net', 'me@site.co.uk', 'user@mail.de', '@.com', 'a@b', 'bob@gmail.comx', 'Bob@Gmail.Com']
WEBISH = ['www.google.com', 'google.com', 'http://www.a.org/x', 'http://b.net', 'test.com', 'my.site.edu', 'x.nl', 'a.milk', 'www.x.company',
          'foo.com/bar baz', '.com', 'WWW.ROCK.COM', 'a.com.b.com']


@st.composite
def walk(draw):
    """A random walk over one of the layouts (length 3-8), random shift state per key."""
    name = draw(st.sampled_from(['qwerty', 'qwerty', 'jcuken']))
    rows = LAYOUTS[name]
    r = draw(st.integers(0, 3))
    c = draw(st.integers(0, len(rows[r][0]) - 1))
    n = draw(st.integers(3, 8))
    out = []
    for _ in range(n):
        plain, shifted = rows[r]
        sh = draw(st.integers(0, 4)) == 0
        row = shifted if sh else plain
        out.append(row[c] if c < len(row) else plain[min(c, len(plain) - 1)])
        moves = []
        for dr, dcs in ((0, (-1, 1)), (1, (0, -1)), (-1, (0, 1))):
            rr = r + dr
            if 0 <= rr <= 3:
                for dc in dcs:
                    cc = c + dc
                    if 0 <= cc < len(rows[rr][0]):
                        moves.append((rr, cc))
        if not moves:
            break
        r, c = draw(st.sampled_from(moves))
    return ''.join(out)


def cased(word):
    return st.sampled_from([word, word.capitalize(), word.upper(), word[:-1] + word[-1].upper(), word.swapcase() if len(word) > 2 else word])


@st.composite
def fragment(draw, specials=()):
    kind = draw(st.sampled_from(['word', 'word', 'word', 'multi', 'digits', 'digits', 'year', 'yearish', 'walk', 'context', 'near_context', 'email',
                                 'web', 'symbol', 'symbol', 'unidigit', 'text'] + ['special'] * (1 if specials else 0)))
    if kind == 'word':
        return draw(cased(draw(st.sampled_from(WORDS))))
    if kind == 'multi':
        # 2-4 vocabulary words glued together (tails of longer multi-words reappear as shorter ones)
        k = draw(st.sampled_from([2, 2, 3, 3, 4]))
        return ''.join(draw(cased(draw(st.sampled_from(WORDS[:9])))) for _ in range(k))
    if kind == 'digits':
        return draw(st.text('0123456789', min_size=1, max_size=6))
    if kind == 'year':
        return draw(st.sampled_from(['19', '20'])) + draw(st.text('0123456789', min_size=2, max_size=2))
    if kind == 'yearish':
        # digit runs made of year prefixes and years: overlapping candidates (1919dd, 20202019, 192019 ...)
        k = draw(st.integers(2, 4))
        return ''.join(draw(st.sampled_from(['19', '20', '1985', '2020', '2019', '1919', '0', '7', '85'])) for _ in range(k))
    if kind == 'walk':
        return draw(walk())
    if kind == 'context':
        return draw(st.sampled_from(CONTEXT))
    if kind == 'near_context':
        return draw(st.sampled_from(['#12', '#123', '#1a', 'no.12', 'No.', '<33', 'i<', '*0', 'mr', 'Dr.Dr.', '#1#1', ';p;p']))
    if kind == 'email':
        return draw(st.sampled_from(EMAILISH))
    if kind == 'web':
        return draw(st.sampled_from(WEBISH))
    if kind == 'symbol':
        return draw(st.sampled_from(SYMBOLS))
    if kind == 'unidigit':
        return draw(st.sampled_from(UNIDIGITS))
    if kind == 'special':
        return draw(st.sampled_from([x for k in specials for x in SPECIAL[k]]))
    return draw(st.text(st.characters(min_codepoint=0x20, max_codepoint=0x2fff, blacklist_categories=('Cs', 'Cc')), min_size=1, max_size=4))


@st.composite
def password(draw, specials=(), max_frags=5):
    n = draw(st.integers(1, max_frags))
    return ''.join(draw(fragment(specials)) for _ in range(n))


def supported_letter(c):
    """C03's letter domain: case mapping is one-to-one."""
    if not c.isalpha():
        return True
    if len(c.lower()) != 1:
        return False
    if c.isupper():
        return c.lower().upper() == c
    return c.lower() == c
