"""Independent OMEN reference: level function and exhaustive level enumerator, written from the OMEN
definition (level = length cost + initial n-gram cost + sum of transition costs). Shares no code with
lib_guesser/omen, lib_scorer or lib_trainer/omen."""
import os


class Model:
    """ngram: int; ip: {prefix: level}; cp: {context: {next_char: level}}; ln: {length: level} (1-based length)."""

    def __init__(self, ngram, ip, cp, ln, alphabet=None):
        self.ngram = ngram
        self.ip = ip
        self.cp = cp
        self.ln = ln
        self.alphabet = alphabet


def from_model_dict(om):
    """From the harness' JSON model {'ngram','ip':[[lvl,str]],'cp':[[lvl,str]],'ln':[...]}."""
    ip = {}
    for lvl, s in om['ip']:
        ip.setdefault(s, lvl)
    cp = {}
    for lvl, s in om['cp']:
        cp.setdefault(s[:-1], {}).setdefault(s[-1], lvl)
    ln = {i + 1: l for i, l in enumerate(om['ln'])}
    return Model(om['ngram'], ip, cp, ln, list(om.get('alphabet') or []))


def from_files(omen_dir, encoding=None):
    """Own minimal reader of the Omen/ directory (used where the model on disk was written by the trainer)."""
    import configparser
    c = configparser.ConfigParser()
    c.read(os.path.join(omen_dir, 'config.txt'))
    ngram = c.getint('training_settings', 'ngram')
    enc = encoding or c.get('training_settings', 'encoding')

    def rows(fn):
        with open(os.path.join(omen_dir, fn), 'rb') as f:
            data = f.read().decode(enc)
        for line in data.split('\n'):
            if line.endswith('\r'):
                line = line[:-1]
            if line == '':
                continue
            lvl, s = line.split('\t')
            yield int(lvl), s

    ip = {s: l for l, s in rows('IP.level')}
    cp = {}
    for l, s in rows('CP.level'):
        cp.setdefault(s[:-1], {})[s[-1]] = l
    ln = {}
    with open(os.path.join(omen_dir, 'LN.level'), 'rb') as f:
        for i, line in enumerate(f.read().decode('ascii').split('\n')):
            line = line.strip()
            if line:
                ln[i + 1] = int(line)
    with open(os.path.join(omen_dir, 'alphabet.txt'), 'rb') as f:
        alpha = [x.rstrip('\r') for x in f.read().decode(enc).split('\n') if x.rstrip('\r') != '']
    return Model(ngram, ip, cp, ln, alpha)


def level_of(model, s, max_level=10):
    """OMEN level of string s, or -1 when the model cannot generate it."""
    n = model.ngram
    L = len(s)
    if L < n or L not in model.ln:
        return -1
    pre = s[:n - 1]
    if pre not in model.ip:
        return -1
    total = model.ln[L] + model.ip[pre]
    for i in range(n - 1, L):
        ctx = s[i - (n - 1):i]
        nxt = model.cp.get(ctx)
        if nxt is None or s[i] not in nxt:
            return -1
        total += nxt[s[i]]
    return total


def enumerate_level(model, target, cap=200000):
    """All strings whose costs sum to exactly `target`. Returns None if more than `cap`."""
    n = model.ngram
    out = []

    def dfs(s, remaining_chars, remaining_level):
        if remaining_chars == 0:
            if remaining_level == 0:
                out.append(s)
            return len(out) <= cap
        ctx = s[len(s) - (n - 1):]
        nxt = model.cp.get(ctx)
        if not nxt:
            return True
        for ch, lvl in nxt.items():
            if lvl <= remaining_level:
                if not dfs(s + ch, remaining_chars - 1, remaining_level - lvl):
                    return False
        return True

    for length, ll in model.ln.items():
        if length < n or ll > target:
            continue
        for pre, il in model.ip.items():
            rem = target - ll - il
            if rem < 0:
                continue
            if not dfs(pre, length - (n - 1), rem):
                return None
    return out


def count_level(model, target):
    """Number of strings at exactly `target`, by dynamic programming (no enumeration)."""
    n = model.ngram
    total = 0
    # dp over (context, remaining chars, remaining level) with memo
    memo = {}

    def cnt(ctx, chars, lvl):
        if chars == 0:
            return 1 if lvl == 0 else 0
        key = (ctx, chars, lvl)
        if key in memo:
            return memo[key]
        r = 0
        nxt = model.cp.get(ctx)
        if nxt:
            for ch, l in nxt.items():
                if l <= lvl:
                    r += cnt((ctx + ch)[1:] if n > 1 else '', chars - 1, lvl - l)
        memo[key] = r
        return r

    for length, ll in model.ln.items():
        if length < n or ll > target:
            continue
        for pre, il in model.ip.items():
            rem = target - ll - il
            if rem >= 0:
                total += cnt(pre, length - (n - 1), rem)
    return total


def search_space(model, target, cap=10 ** 7):
    """Number of partial strings (prefixes) whose accumulated cost does not exceed `target`, summed over all lengths and
    initial n-grams - an upper bound on what a depth-first generator may have to visit for this level even when the level
    itself is tiny. Stops counting at `cap`."""
    n = model.ngram
    total = 0
    for length, ll in model.ln.items():
        if length < n or ll > target:
            continue
        steps = length - (n - 1)
        for pre, il in model.ip.items():
            rem = target - ll - il
            if rem < 0:
                continue
            # layer[(ctx, cost)] = number of prefixes
            layer = {(pre, 0): 1}
            total += 1
            for _ in range(steps):
                nxt = {}
                for (ctx, cost), cnt in layer.items():
                    succ = model.cp.get(ctx)
                    if not succ:
                        continue
                    for ch, lvl in succ.items():
                        c2 = cost + lvl
                        if c2 <= rem:
                            key = ((ctx + ch)[1:], c2)
                            nxt[key] = nxt.get(key, 0) + cnt
                layer = nxt
                total += sum(layer.values())
                if total > cap:
                    return total
                if not layer:
                    break
    return total
