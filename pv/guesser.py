"""Drives the real guesser (lib_guesser) from /repo's working tree."""
import configparser
import contextlib
import io
import os
import sys

from . import core

core.use_repo()

VERSION = '4.7'


def load(rdir, save_file=None, **kw):
    """Real PcfgGrammar over a ruleset directory. Raises whatever the loader raises."""
    from lib_guesser.pcfg_grammar import PcfgGrammar
    with core.quiet():
        g = PcfgGrammar('T', rdir, VERSION, save_file=save_file or os.path.join(rdir, 'session.sav'), **kw)
    return g


def new_queue(g, save_config=None):
    from lib_guesser.priority_queue import PcfgQueue
    with core.quiet():
        return PcfgQueue(g, save_config)


def capture_guesses(g, pt, **kw):
    """Runs the real create_guesses with the process stdout captured; returns (lines, returned_count)."""
    buf = io.StringIO()
    with contextlib.redirect_stdout(buf), contextlib.redirect_stderr(io.StringIO()):
        cnt = g.create_guesses(pt, **kw)
    text = buf.getvalue()
    lines = text.split('\n')
    if lines and lines[-1] == '':
        lines.pop()
    return lines, cnt


def run_queue(g, save_config=None, expand=False, max_items=None, on_pop=None):
    """Drains the real PcfgQueue. Returns [(pt_tuple, prob, base_prob, guesses|None, count|None)]."""
    q = new_queue(g, save_config)
    out = []
    while True:
        it = q.next()
        if it is None:
            break
        pt = tuple((a, b) for a, b in it['pt'])
        if expand:
            lines, cnt = capture_guesses(g, it['pt'])
        else:
            lines, cnt = None, None
        out.append((pt, it['prob'], it['base_prob'], lines, cnt))
        if on_pop:
            on_pop(q, out)
        if max_items and len(out) >= max_items:
            break
    return out


def make_save_config(min_p, max_p, extra=None):
    sc = configparser.ConfigParser()
    sc.add_section('rule_info')
    sc.add_section('session_info')
    sc.add_section('guessing_info')
    sc.set('guessing_info', 'min_probability', repr(float(min_p)))
    sc.set('guessing_info', 'max_probability', repr(float(max_p)))
    for k, v in (extra or {}).items():
        sc.set('guessing_info', k, str(v))
    return sc
