"""Invocation contexts for the command-line tools run as real subprocesses.

A context says from where and how a tool is started: working directory (the tool's folder, an unrelated folder, or a folder
that holds DECOY files named like the things the tool is asked for), the spelling of the rule name, PYTHONHASHSEED, how Python's
standard streams are set up. The library functions can be right while the command-line path is not - these contexts are what
the CLI parts of the checks draw from."""
import os
import subprocess
import sys

from hypothesis import strategies as st

from . import rsmodel

RULE_NAMES = ['T', 'T', 'T 2', 'tést', 'pw[ab]', 'v1.0', 'R.sav']
# a ruleset that must never be read: its words are recognisable
DECOY_MODEL = {'encoding': 'utf-8', 'uuid': 'decoy', 'vars': {'D4': [[0.5, ['6661']], [0.25, ['6662', '6663']]], 'A5': [[1.0, ['decoy']]],
                                                            'C5': [[1.0, ['LLLLL']]]},
               'base': [['D4', 0.5], ['A5D4', 0.25], ['A5', 0.25]], 'prince': [['A5', 0.5], ['D4', 0.5]], 'm_levels': []}


@st.composite
def contexts(draw, rule_names=True, io_modes=('utf8', 'utf8', 'utf8_strict')):
    return {'cwd': draw(st.sampled_from(['tool', 'elsewhere', 'decoy', 'decoy'])),
            'rule': draw(st.sampled_from(RULE_NAMES)) if rule_names else 'T',
            'hashseed': draw(st.sampled_from([None, 0, 1, 77, 4242])),
            'io': draw(st.sampled_from(list(io_modes))),
            # the script is started directly or through a symbolic link elsewhere (an "installed" launcher in ~/bin)
            'launcher': draw(st.sampled_from(['direct', 'direct', 'symlink'])),
            # python -O / PYTHONOPTIMIZE=1 (some container images set it): assert statements are not executed
            'optimize': draw(st.integers(0, 3)) == 0}


DEFAULT = {'cwd': 'tool', 'rule': 'T', 'hashseed': 0, 'io': 'utf8'}


def env_for(ctx):
    env = dict(os.environ)
    env.pop('PYTHONUNBUFFERED', None)          # Python's default: block-buffered stdout on pipes and files
    env.update(PYTHONDONTWRITEBYTECODE='1', PYTHONWARNINGS='ignore', PYTHONUTF8='1', LC_ALL='C.UTF-8')
    env.pop('PYTHONIOENCODING', None)
    if ctx.get('hashseed') is None:
        env.pop('PYTHONHASHSEED', None)        # random per process, as for a user
    else:
        env['PYTHONHASHSEED'] = str(ctx['hashseed'])
    if ctx.get('optimize'):
        env['PYTHONOPTIMIZE'] = '1'
    else:
        env.pop('PYTHONOPTIMIZE', None)
    io = ctx.get('io', 'utf8')
    if io == 'utf8_strict':
        env['PYTHONIOENCODING'] = 'utf-8'      # what an ordinary xx_XX.UTF-8 terminal / pipe gives: errors='strict'
    elif io == 'ascii':
        env['PYTHONIOENCODING'] = 'ascii'
    elif io == 'c_locale':
        # a process whose locale encoding is not UTF-8 at all (LC_ALL=C without UTF-8 mode or coercion; a legacy locale; Windows ANSI):
        # files opened without an explicit encoding are read and written as ASCII
        env.update(LC_ALL='C', LANG='C', PYTHONUTF8='0', PYTHONCOERCECLOCALE='0')
    return env


def cwd_for(root, ctx, rule_name=None):
    """The directory the tool is started from (created on demand). 'decoy' holds a different ruleset under the names the
    tool might look up relative to the working directory."""
    kind = ctx.get('cwd', 'tool')
    if kind == 'tool':
        return root
    d = os.path.join(root, 'some where else' if kind == 'elsewhere' else 'decoy dir')
    os.makedirs(d, exist_ok=True)
    if kind == 'decoy':
        rn = rule_name or ctx.get('rule', 'T')
        for target in (os.path.join(d, rn), os.path.join(d, 'Rules', rn)):
            if not os.path.exists(os.path.join(target, 'config.ini')):
                rsmodel.write_ruleset(target, DECOY_MODEL)
    return d


def run(root, script, args, ctx=None, stdin=subprocess.DEVNULL, timeout=120, rule_name=None, **kw):
    ctx = ctx or DEFAULT
    return subprocess.run([sys.executable, script_path(root, script, ctx)] + list(args), stdin=stdin, capture_output=True, env=env_for(ctx),
                          cwd=cwd_for(root, ctx, rule_name), timeout=timeout, **kw)


def script_path(root, script, ctx):
    if (ctx or {}).get('launcher') != 'symlink':
        return os.path.join(root, script)
    bindir = os.path.join(root, 'bin dir')
    os.makedirs(bindir, exist_ok=True)
    link = os.path.join(bindir, script)
    if not os.path.islink(link):
        os.symlink(os.path.join(root, script), link)
    return link


def label(ctx):
    return ['cwd_' + ctx.get('cwd', 'tool'), 'io_' + ctx.get('io', 'utf8'), 'hashseed_' + ('random' if ctx.get('hashseed') is None else 'fixed')] + \
        (['rule_name_unusual'] if ctx.get('rule', 'T') != 'T' else []) + (['started_through_symlink'] if ctx.get('launcher') == 'symlink' else []) + (['python_optimize'] if ctx.get('optimize') else [])
