"""Runner: tiers, seeds, sharding over worker processes, evidence, VIOLATION / KNOWN-FINDING lines.

    python -m pv.runner <ID> [--tier quick|thorough] [--replay FILE] [--part NAME] [--jobs N]

Exit codes: 0 property held on everything explored (open known findings are
reported as KNOWN-FINDING lines), 1 violation (a line
"VIOLATION property=<id> replay=<path>" per root cause), 2 harness error.
"""
import argparse
import importlib
import json
import multiprocessing as mp
import os
import sys
import time
import traceback

from . import core
from .core import Rec, Violation

HERE = os.path.dirname(os.path.dirname(os.path.abspath(__file__)))


def _load_module(pid):
    return importlib.import_module('pv.checks.' + pid.lower())


def _task(args):
    """Runs one (part, shard) in a worker process; returns a picklable dict."""
    pid, part_name, shard, nshards, seed, tier = args
    t0 = time.time()
    rec = Rec(part_name)
    try:
        mod = _load_module(pid)
        part = {p.name: p for p in mod.PARTS}[part_name]
        part.run(rec, seed=seed, shard=shard, nshards=nshards, tier=tier)
    except Violation as v:
        rec.add_violation(v)
    except core.StopSearch:
        pass
    except BaseException:  # harness error
        rec.harness_error = traceback.format_exc()
    finally:
        core.cleanup_scratch()
    out = rec.to_dict()
    out['wall_s'] = time.time() - t0
    out['shard'] = shard
    return out


def _child(conn, t):
    try:
        conn.send(_task(t))
    finally:
        conn.close()


def _run_tasks(tasks, jobs, tier):
    """One process per (part, shard); at most `jobs` at a time; a task that exceeds the safety limit is killed and
    reported as a harness error (inconclusive, exit 2) - never as a violation."""
    limit = float(os.environ.get('PV_TASK_TIMEOUT', '2400' if tier == 'quick' else '14400'))
    ctx = mp.get_context('fork')
    pending = list(tasks)
    running = []
    results = []
    jobs = max(1, jobs)
    while pending or running:
        while pending and len(running) < jobs:
            t = pending.pop(0)
            pc, cc = ctx.Pipe(duplex=False)
            p = ctx.Process(target=_child, args=(cc, t))
            p.start()
            cc.close()
            running.append((p, pc, t, time.time()))
        still = []
        for p, pc, t, st in running:
            r = None
            if pc.poll(0.02):
                try:
                    r = pc.recv()
                except EOFError:
                    r = None
                p.join(5)
                if r is None:
                    r = _failed(t, f'worker died without a result (exit code {p.exitcode})')
            elif not p.is_alive():
                p.join()
                r = _failed(t, f'worker died without a result (exit code {p.exitcode})')
            elif time.time() - st > limit:
                p.kill()
                p.join()
                r = _failed(t, f'task exceeded the safety limit of {limit:.0f}s and was stopped (inconclusive)')
            if r is None:
                still.append((p, pc, t, st))
            else:
                results.append(r)
        running = still
    return results


def _failed(t, msg):
    rec = Rec(t[1])
    rec.harness_error = msg
    out = rec.to_dict()
    out['wall_s'] = 0.0
    out['shard'] = t[2]
    return out


def _find_findings(pid):
    path = os.path.join(HERE, 'known_findings.jsonl')
    res = []
    if os.path.exists(path):
        for line in open(path, encoding='utf-8'):
            line = line.strip()
            if not line.startswith('{'):
                continue      # comments and 'fixed: property=<id> <commit> <what>' records
            d = json.loads(line)
            if d.get('property') == pid:
                res.append(d)
    return res


def main(argv=None):
    ap = argparse.ArgumentParser()
    ap.add_argument('pid')
    ap.add_argument('--tier', default=os.environ.get('VERIF_TIER', 'quick'), choices=['quick', 'thorough'])
    ap.add_argument('--replay')
    ap.add_argument('--part', action='append')
    ap.add_argument('--jobs', type=int, default=int(os.environ.get('PV_JOBS', '16')))
    ap.add_argument('--no-evidence', action='store_true')
    a = ap.parse_args(argv)
    pid = a.pid.upper()
    try:
        seed = int(os.environ.get('VERIF_SEED', '1') or '1')
    except ValueError:
        seed = 1
    t0 = time.time()
    try:
        mod = _load_module(pid)
    except Exception:
        traceback.print_exc()
        print(f'HARNESS-ERROR property={pid} cannot import check module', file=sys.stderr)
        return 2

    if a.replay:
        return _replay(mod, pid, a.replay)

    parts = [p for p in mod.PARTS if (not a.part or p.name in a.part)]
    tasks = []
    for pi, p in enumerate(parts):
        n = p.shards.get(a.tier, 1)
        if n <= 0:
            continue
        for s in range(n):
            tasks.append((pid, p.name, s, n, seed * 100003 + pi * 1009 + s, a.tier))
    results = _run_tasks(tasks, a.jobs, a.tier)
    results.sort(key=lambda r: (r['part'], r['shard']))

    # ---- merge
    herr = [r for r in results if r.get('harness_error')]
    evaluations = sum(r['evaluations'] for r in results)
    nontrivial = set()
    classes = {}
    skipped = {}
    samples = []
    per_part = {}
    exhaustive_parts = []
    viols = []
    for r in results:
        nontrivial.update(r['nontrivial'])
        for k, v in r['classes'].items():
            classes[k] = classes.get(k, 0) + v
        for k, v in r['skipped'].items():
            skipped[k] = skipped.get(k, 0) + v
        pp = per_part.setdefault(r['part'], {'evaluations': 0, 'distinct_nontrivial': set(), 'shards': 0, 'wall_s': 0.0})
        pp['evaluations'] += r['evaluations']
        pp['distinct_nontrivial'].update(r['nontrivial'])
        pp['shards'] += 1
        pp['wall_s'] = round(pp['wall_s'] + r['wall_s'], 2)
        if r.get('exhaustive'):
            if r['part'] not in exhaustive_parts:
                exhaustive_parts.append(r['part'])
        viols.extend(r['violations'])
    for name in per_part:
        got = [s for r in results if r['part'] == name for s in r['samples']]
        samples.extend(got[:2])
    for pp in per_part.values():
        pp['distinct_nontrivial'] = len(pp['distinct_nontrivial'])

    findings = _find_findings(pid)
    open_f = {f['id']: f for f in findings if f.get('status') == 'open'}
    # ---- classify violations by root cause (kind); known open findings are reported, not alarmed
    by_kind = {}
    for v in viols:
        k = v.get('finding') or v['kind']
        cur = by_kind.get(k)
        if cur is None or len(json.dumps(v['case'], default=str)) < len(json.dumps(cur['case'], default=str)):
            by_kind[k] = v
    n_viol = 0
    known_lines = []
    out_lines = []
    for k, v in sorted(by_kind.items()):
        fid = v.get('finding')
        if fid and fid in open_f:
            known_lines.append(f"KNOWN-FINDING: property={pid} {fid}: {open_f[fid]['what']}")
            continue
        path = core.write_replay(HERE, pid, v)
        out_lines.append(f"VIOLATION property={pid} replay={path}")
        print(f"  [{v['part']}] {v['kind']}: {v['message'][:600]}", file=sys.stderr)
        n_viol += 1
    for f in open_f.values():
        line = f"KNOWN-FINDING: property={pid} {f['id']}: {f['what']}"
        if line not in known_lines:
            # probe did not fire: say so on stderr only (nothing to report on stdout)
            print(f"note: open finding {f['id']} did not reproduce in this run", file=sys.stderr)
    for l in known_lines:
        print(l)
    for l in out_lines:
        print(l)

    wall = time.time() - t0
    if herr:
        for r in herr:
            print(f"HARNESS-ERROR property={pid} part={r['part']} shard={r['shard']}\n{r['harness_error']}", file=sys.stderr)
    if not a.no_evidence and not a.part:
        ev = {
            'property_id': pid,
            'tier': a.tier,
            'seed': seed,
            'level': getattr(mod, 'LEVEL', 'exploration'),
            'coverage': {
                'evaluations': evaluations,
                'distinct_nontrivial': len(nontrivial),
                'rule': mod.RULE,
                'samples': samples[:8],
                'classes': dict(sorted(classes.items())),
                'skipped_or_excluded': dict(sorted(skipped.items())),
                'parts': per_part,
                'exhaustive': False,
                'exhaustive_subparts': exhaustive_parts,
                'known_findings_reported': known_lines,
                'harness_errors': len(herr),
            },
            'assumptions': list(getattr(mod, 'ASSUMPTIONS', [])),
            'wall_s': round(wall, 2),
            'violations': n_viol,
        }
        os.makedirs(os.path.join(HERE, 'evidence'), exist_ok=True)
        tmp = os.path.join(HERE, 'evidence', pid + '.json.tmp')
        with open(tmp, 'w', encoding='utf-8') as f:
            json.dump(ev, f, indent=1, ensure_ascii=True, default=str)
            f.write('\n')
        os.replace(tmp, os.path.join(HERE, 'evidence', pid + '.json'))
    print(f"{pid} tier={a.tier} seed={seed} evaluations={evaluations} distinct_nontrivial={len(nontrivial)} "
          f"violations={n_viol} known={len(known_lines)} harness_errors={len(herr)} wall={wall:.1f}s", file=sys.stderr)
    if n_viol:
        return 1
    if herr:
        return 2
    return 0


def _replay(mod, pid, path):
    try:
        d = json.load(open(path, encoding='utf-8'))
        part = {p.name: p for p in mod.PARTS}[d['part']]
    except Exception:
        traceback.print_exc()
        return 2
    rec = Rec(d['part'])
    try:
        part.replay(core.thaw(d['case']), rec)
    except Violation as v:
        print(f"  {v.kind}: {v.message[:2000]}", file=sys.stderr)
        print(f"VIOLATION property={pid} replay={path}")
        return 1
    except core.StopSearch:
        pass                      # the violation was recorded in rec
    except BaseException:
        traceback.print_exc()
        return 2
    finally:
        core.cleanup_scratch()
    if rec.violations:
        v = rec.violations[0]
        print(f"  {v['kind']}: {v['message'][:2000]}", file=sys.stderr)
        print(f"VIOLATION property={pid} replay={path}")
        return 1
    print(f"replay {path}: property holds on this case", file=sys.stderr)
    return 0


if __name__ == '__main__':
    sys.exit(main())
