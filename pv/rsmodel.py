"""Ruleset model: the harness writes rulesets in the trainer's on-disk format and therefore knows the
language (groups, values, masks, probabilities) without trusting any repository parser.

Model (JSON-able dict):
  encoding: str
  uuid: str
  vars:  {name: [[prob, [value, ...]], ...]}   groups with strictly decreasing prob, names like A3,C3,D2,O1,K4,Y1,X1
  base:  [[structure, prob], ...]              as in Grammar/grammar.txt (no C items; 'M' = Markov), non-increasing
  prince:[[structure, prob], ...]              Prince/grammar.txt
  omen:  {ngram, alphabet:[...], ip:[[lvl,str]], ep:[[lvl,str]], cp:[[lvl,str]], ln:[21 ints]}
  m_levels: [[level, prob], ...]               Omen/pcfg_omen_prob.txt (file order)
  keyspace: [[level, n], ...]
  emails / websites: [[value, prob], ...]
"""
import configparser
import itertools
import json
import os
import re
import shutil
from fractions import Fraction

DIRS = {'A': 'Alpha', 'C': 'Capitalization', 'D': 'Digits', 'O': 'Other', 'K': 'Keyboard', 'Y': 'Years',
        'X': 'Context'}
SECTIONS = {'A': 'BASE_A', 'C': 'CAPITALIZATION', 'D': 'BASE_D', 'O': 'BASE_O', 'K': 'BASE_K', 'Y': 'BASE_Y',
            'X': 'BASE_X'}

DEFAULT_OMEN = {'ngram': 2, 'alphabet': ['a'], 'ip': [[0, 'a']], 'ep': [[0, 'a']], 'cp': [[0, 'aa']],
                'ln': [10, 0] + [10] * 19}

TOKEN_RE = re.compile(r'[A-Za-z][^A-Za-z]*')


def tokens(structure):
    """Independent tokenizer for a base structure string: a letter followed by its non-letters."""
    return TOKEN_RE.findall(structure)


def with_caps(toks):
    out = []
    for t in toks:
        out.append(t)
        if t[0] == 'A':
            out.append('C' + t[1:])
    return out


def write_ruleset(d, m):
    """Writes model m as a ruleset directory d (the trainer's format)."""
    shutil.rmtree(d, ignore_errors=True)
    enc = m.get('encoding', 'utf-8')
    for x in list(DIRS.values()) + ['Grammar', 'Omen', 'Emails', 'Websites', 'Prince', 'Masks']:
        os.makedirs(os.path.join(d, x), exist_ok=True)
    files = {k: [] for k in DIRS}
    for name, groups in m['vars'].items():
        cat, ln = name[0], name[1:]
        fn = ln + '.txt'
        files[cat].append(fn)
        with open(os.path.join(d, DIRS[cat], fn), 'w', encoding=enc, newline='\n') as f:
            for prob, values in groups:
                for v in values:
                    f.write(v + '\t' + repr(float(prob)) + '\n')
    for cat in ('Y', 'X'):
        p = os.path.join(d, DIRS[cat], '1.txt')
        if not os.path.exists(p):
            open(p, 'w').close()
    c = configparser.ConfigParser()
    c['TRAINING_PROGRAM_DETAILS'] = {'contact': 'x', 'author': 'x', 'program': 'PCFG Trainer',
                                     'version': m.get('version', '4.7')}
    c['TRAINING_DATASET_DETAILS'] = {'comments': '', 'filename': 'none', 'encoding': enc,
                                     'uuid': m.get('uuid', 'uuid-0001'), 'number_of_passwords_in_set': '1',
                                     'number_of_encoding_errors': '0'}
    for cat, s in SECTIONS.items():
        fl = sorted(files[cat], key=lambda x: int(x.split('.')[0])) if cat not in 'YX' else ['1.txt']
        c[s] = {'name': cat, 'directory': DIRS[cat], 'comments': '', 'file_type': 'length',
                'inject_type': 'wordlist' if cat != 'C' else 'mask', 'function': 'copy' if cat != 'C' else 'capitalization',
                'is_terminal': 'true', 'filenames': json.dumps(fl)}
    with open(os.path.join(d, 'config.ini'), 'w') as f:
        c.write(f)
    with open(os.path.join(d, 'Grammar', 'grammar.txt'), 'w', newline='\n') as f:
        for s, p in m['base']:
            f.write(s + '\t' + repr(float(p)) + '\n')
    with open(os.path.join(d, 'Grammar', 'raw_grammar.txt'), 'w', newline='\n') as f:
        for s, p in m['base']:
            f.write(s + '\t' + repr(float(p)) + '\n')
    with open(os.path.join(d, 'Prince', 'grammar.txt'), 'w', newline='\n') as f:
        for s, p in m.get('prince') or []:
            f.write(s + '\t' + repr(float(p)) + '\n')
    for fn, key in (('Emails/email_providers.txt', 'emails'), ('Websites/website_hosts.txt', 'websites')):
        with open(os.path.join(d, fn), 'w', encoding=enc, newline='\n') as f:
            for v, p in m.get(key) or []:
                f.write(v + '\t' + repr(float(p)) + '\n')
    om = m.get('omen') or DEFAULT_OMEN
    oc = configparser.ConfigParser()
    oc['training_settings'] = {'ngram': str(om['ngram']), 'encoding': enc}
    with open(os.path.join(d, 'Omen', 'config.txt'), 'w') as f:
        oc.write(f)
    with open(os.path.join(d, 'Omen', 'alphabet.txt'), 'w', encoding=enc, newline='\n') as f:
        for ch in om['alphabet']:
            f.write(ch + '\n')
    for nm in ('ip', 'ep', 'cp'):
        with open(os.path.join(d, 'Omen', nm.upper() + '.level'), 'w', encoding=enc, newline='\n') as f:
            for lvl, s in om.get(nm) or om['ip']:
                f.write(f'{lvl}\t{s}\n')
    with open(os.path.join(d, 'Omen', 'LN.level'), 'w', newline='\n') as f:
        for lvl in om['ln']:
            f.write(f'{lvl}\n')
    with open(os.path.join(d, 'Omen', 'omen_keyspace.txt'), 'w', newline='\n') as f:
        for lvl, k in m.get('keyspace') or [[1, 1]]:
            f.write(f'{lvl}\t{k}\n')
    with open(os.path.join(d, 'Omen', 'pcfg_omen_prob.txt'), 'w', newline='\n') as f:
        for lvl, p in m.get('m_levels') or []:
            f.write(f'{lvl}\t{float(p)!r}\n')
    style = m.get('file_style')
    if os.environ.get('PV_FORCE_STYLE'):
        style = json.loads(os.environ['PV_FORCE_STYLE'])
    if style:
        restyle(d, style)
    return d


def restyle(d, style):
    """Rewrites the text files of a ruleset the way a hand edit or a line-end converting tool leaves them: CRLF line ends
    and / or no terminator after the last line. style = {'eol': 'lf'|'crlf', 'final_newline': bool, 'scope': 'all'|'omen'|'pcfg'}."""
    scope = style.get('scope', 'all')
    for root, dirs, files in os.walk(d):
        for fn in files:
            rel = os.path.relpath(os.path.join(root, fn), d)
            in_omen = rel.startswith('Omen' + os.sep)
            if (scope == 'omen' and not in_omen) or (scope == 'pcfg' and in_omen):
                continue
            p = os.path.join(root, fn)
            data = open(p, 'rb').read()
            if not data:
                continue
            data = data.replace(b'\r\n', b'\n')
            if not style.get('final_newline', True) and data.endswith(b'\n') and fn not in ('config.ini', 'config.txt'):
                data = data[:-1]
            if style.get('eol') == 'crlf':
                data = data.replace(b'\n', b'\r\n')
            with open(p, 'wb') as f:
                f.write(data)


# ------------------------------------------------------------------ model-side oracle
def effective(m, skip_brute=False, skip_case=False, folder='Grammar'):
    """The grammar the guesser is expected to work with under the given flags.

    Returns (vars, base): vars name -> [(prob_float, [values])]; base -> [(var_list, prob_float, structure)].
    Probabilities are computed with the same float expression the documented behaviour implies:
    p / (1 - P(M)) for skip_brute.
    """
    vs = {k: [(float(p), list(v)) for p, v in g] for k, g in m['vars'].items()}
    if skip_case:
        for k in list(vs):
            if k[0] == 'C':
                vs[k] = [(1.0, ['L' * int(k[1:])])]
    vs['M'] = [(float(p), [str(l)]) for l, p in (m.get('m_levels') or [])]
    for key, name in (('emails', 'E'), ('websites', 'W')):
        groups = []
        for v, p in m.get(key) or []:          # flat [value, prob] lists: equal neighbouring probabilities form a group
            if groups and groups[-1][0] == float(p):
                groups[-1][1].append(v)
            else:
                groups.append((float(p), [v]))
        vs[name] = groups
    src = m['base'] if folder == 'Grammar' else (m.get('prince') or [])
    total = 1.0
    if skip_brute:
        for s, p in src:
            if s == 'M':
                total = 1.0 - float(p)
                break
    base = []
    for s, p in src:
        toks = with_caps(tokens(s))
        if skip_brute and 'M' in toks:
            continue
        base.append((toks, float(p) / total, s))
    return vs, base


def preterminals(vs, base):
    """All pre-terminals as (base_index, tuple((var, group_index)...)). One per derivation."""
    for bi, (toks, bp, s) in enumerate(base):
        for idx in itertools.product(*[range(len(vs[t])) for t in toks]):
            yield bi, tuple(zip(toks, idx))


def n_preterminals(vs, base):
    n = 0
    for toks, bp, s in base:
        k = 1
        for t in toks:
            k *= len(vs[t])
        n += k
    return n


def exact_prob(vs, base_prob, pt):
    r = Fraction(base_prob)
    for t, i in pt:
        r *= Fraction(vs[t][i][0])
    return r


def float_prob(vs, base_prob, pt):
    """Left-to-right float product (the order in which the factors are listed in the structure)."""
    r = base_prob
    for t, i in pt:
        r *= vs[t][i][0]
    return r


def apply_mask(word, mask):
    return ''.join(ch.upper() if mk != 'L' else ch for ch, mk in zip(word, mask))


def expand(vs, pt, omen_level_fn=None):
    """Model-side expansion of one pre-terminal into its guesses, in structure order (first variable
    varies slowest). A C<n> item applies each mask of its group to the n characters before it."""
    if pt and pt[0][0] == 'M':
        lvl = int(vs['M'][pt[0][1]][1][0])
        return list(omen_level_fn(lvl)) if omen_level_fn else None
    partial = ['']
    for t, i in pt:
        values = vs[t][i][1]
        nxt = []
        if t[0] == 'C':
            n = len(values[0])
            for g in partial:
                for mask in values:
                    nxt.append(g[:len(g) - n] + apply_mask(g[len(g) - n:], mask))
        else:
            for g in partial:
                for v in values:
                    nxt.append(g + v)
        partial = nxt
    return partial


def expansion_size(vs, pt):
    n = 1
    for t, i in pt:
        n *= len(vs[t][i][1])
    return n
