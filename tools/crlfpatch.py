"""Line-ending preserving search/replace for the repository's (mostly CRLF) sources.

    from crlfpatch import patch; patch('/repo/x.py', old, new)
"""
import sys


def patch(path, old, new, count=1):
    raw = open(path, 'rb').read()
    crlf = b'\r\n' in raw
    text = raw.decode('utf-8')
    if crlf:
        old = old.replace('\r\n', '\n').replace('\n', '\r\n')
        new = new.replace('\r\n', '\n').replace('\n', '\r\n')
    n = text.count(old)
    if n != count:
        raise SystemExit(f'{path}: expected {count} occurrence(s) of the old text, found {n}')
    text = text.replace(old, new)
    open(path, 'wb').write(text.encode('utf-8'))
    print(f'patched {path} ({"CRLF" if crlf else "LF"})')
