#!/bin/bash
# Runs every claimed check once (tier $1, default quick) and prints one summary line per check.
cd "$(dirname "$0")/.." || exit 2
tier="${1:-quick}"; shift
rc=0
for c in $(python3 -c "import json; print(' '.join(x['property_id'] for x in json.load(open('MANIFEST.json'))['checks']))"); do
  out=$(./check "$c" --tier "$tier" "$@" 2>&1); e=$?
  echo "$out" | grep -E "^(VIOLATION|KNOWN-FINDING)" | cut -c1-160
  echo "$out" | tail -1 | sed "s/^/exit=$e /"
  [ $e -ne 0 ] && rc=1
done
exit $rc
