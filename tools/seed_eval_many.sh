#!/bin/bash
# tools/seed_eval_many.sh C02r2 C06r2 ...   (tag = <ID>r<n>; source dir /tmp/seedout/<tag>)
cd "$(dirname "$0")/.."
for t in "$@"; do
  id=${t%%r*}; name=r${t##*r}
  python3 tools/seed_eval.py $id --src /tmp/seedout/$t --name $name 2>&1 | grep -v Warn | python3 -c "
import sys,json
txt=sys.stdin.read()
try:
    i=txt.index('{'); j=txt.rindex('}')
    m=json.loads(txt[i:j+1])
    print('$t','confirmed',m['confirmed'],'tests',m['tests_pass_with_change'],'demo',m['demo_exit_with_change'],m['demo_exit_without_change'], {k:(v['caught'],v['first_reports'][:1]) for k,v in m['checks'].items()})
except Exception as e: print('$t ERR', txt[-600:])"
done
