#!/usr/bin/env python3
"""Prints a markdown table of the seeded changes under /verif/seeded (from their meta.json / notes.md)."""
import json, os, re
root = os.path.join(os.path.dirname(os.path.dirname(os.path.abspath(__file__))), 'seeded')
print('| seed | property | change (from the sub-agent\'s notes) | tests pass | demo with/without | caught by (quick tier) | first report |')
print('|---|---|---|---|---|---|---|')
for d in sorted(os.listdir(root)):
    mp = os.path.join(root, d, 'meta.json')
    if not os.path.exists(mp):
        continue
    m = json.load(open(mp))
    title = ''
    np_ = os.path.join(root, d, 'notes.md')
    if os.path.exists(np_):
        for line in open(np_, encoding='utf-8'):
            if line.startswith('#'):
                title = line.lstrip('# ').strip()
                break
    title = re.sub(r'^C\d+(r\d)? seed(ed)?( change| defect)?:?\s*', '', title)
    caught = ', '.join(k for k, v in m['checks'].items() if v['caught']) or 'MISSED'
    first = ''
    for k, v in m['checks'].items():
        if v['caught'] and v['first_reports']:
            first = v['first_reports'][0][:110].replace('|', '/')
            break
    print(f"| {d} | {m['property']} | {title[:120]} | {'yes' if m['tests_pass_with_change'] else 'NO'} | {m['demo_exit_with_change']}/{m['demo_exit_without_change']} | {caught} | {first} |")
