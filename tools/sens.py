#!/usr/bin/env python3
"""Sensitivity runner: applies each mutant of pv/mutants/<ID>.json to a scratch copy of /repo's working tree,
optionally confirms the repository's own tests still pass, runs the property's check against the copy
(PV_REPO is honoured by the harness for this purpose only) and expects exit 1.

    tools/sens.py C02 [--tests] [--tier quick] [--only NAME] [--patch FILE.diff]
"""
import argparse
import json
import os
import shutil
import subprocess
import sys
import tempfile

HERE = os.path.dirname(os.path.dirname(os.path.abspath(__file__)))
sys.path.insert(0, os.path.join(HERE, 'tools'))


def copy_repo(dst):
    os.makedirs(dst)
    for name in os.listdir('/repo'):
        if name in ('.git', 'Rules', 'docs', '__pycache__', '.pytest_cache'):
            continue
        src = os.path.join('/repo', name)
        if os.path.isdir(src):
            shutil.copytree(src, os.path.join(dst, name), ignore=shutil.ignore_patterns('__pycache__'))
        else:
            shutil.copy2(src, os.path.join(dst, name))
    os.makedirs(os.path.join(dst, 'Rules'))
    # the Default ruleset is needed by nothing in the harness; tests do not read it either


def apply_mutant(dst, mut):
    path = os.path.join(dst, mut['file'])
    raw = open(path, 'rb').read()
    crlf = b'\r\n' in raw
    text = raw.decode('utf-8')
    old, new = mut['old'], mut['new']
    if crlf:
        old = old.replace('\n', '\r\n')
        new = new.replace('\n', '\r\n')
    cnt = text.count(old)
    if cnt != mut.get('count', 1):
        raise ValueError(f"mutant {mut['name']}: expected {mut.get('count', 1)} occurrence(s) in {mut['file']}, found {cnt}")
    open(path, 'wb').write(text.replace(old, new).encode('utf-8'))


def main():
    ap = argparse.ArgumentParser()
    ap.add_argument('pid')
    ap.add_argument('--tests', action='store_true')
    ap.add_argument('--tier', default='quick')
    ap.add_argument('--only')
    ap.add_argument('--patch', help='a unified diff (git apply) instead of the mutant list')
    ap.add_argument('--seed', default='1')
    a = ap.parse_args()
    pid = a.pid.upper()
    if a.patch:
        muts = [{'name': os.path.basename(a.patch), 'patch': os.path.abspath(a.patch)}]
    else:
        muts = json.load(open(os.path.join(HERE, 'pv', 'mutants', pid + '.json')))
    if a.only:
        muts = [m for m in muts if m['name'] == a.only]
    results = []
    for mut in muts:
        base = tempfile.mkdtemp(prefix='pvmut-', dir='/dev/shm' if os.path.isdir('/dev/shm') else None)
        dst = os.path.join(base, 'repo')
        try:
            copy_repo(dst)
            if 'patch' in mut:
                subprocess.run(['git', 'apply', '--directory', dst.lstrip('/'), '--unsafe-paths', mut['patch']], cwd='/', check=True)
            else:
                try:
                    apply_mutant(dst, mut)
                except ValueError as e:
                    print(f'{pid} BAD-MUTANT {e}', flush=True)
                    results.append((mut['name'], False, None, -1))
                    continue
            tests = None
            if a.tests:
                p = subprocess.run(['/venv/bin/python', '-m', 'pytest', '-q', '-x', '-p', 'no:cacheprovider'], cwd=dst,
                                   capture_output=True, text=True)
                tests = 'pass' if p.returncode == 0 else 'FAIL'
            env = dict(os.environ, PV_REPO=dst, VERIF_SEED=a.seed)
            p = subprocess.run([os.path.join(HERE, 'check'), pid, '--tier', a.tier, '--no-evidence'], env=env,
                               capture_output=True, text=True)
            caught = p.returncode == 1 and 'VIOLATION' in p.stdout
            kinds = [l.strip() for l in p.stderr.splitlines() if l.startswith('  [')]
            results.append((mut['name'], caught, tests, p.returncode))
            print(f"{pid} {mut['name']:40s} {'CAUGHT' if caught else 'MISSED (exit %d)' % p.returncode}  tests={tests}  "
                  f"{kinds[0][:150] if kinds else ''}", flush=True)
            if not caught and p.returncode == 2:
                print(p.stderr[-1500:])
        finally:
            shutil.rmtree(base, ignore_errors=True)
    missed = [r for r in results if not r[1]]
    print(f'{pid}: {len(results) - len(missed)}/{len(results)} mutants caught')
    return 1 if missed else 0


if __name__ == '__main__':
    sys.exit(main())
