#!/usr/bin/env python3
"""Confirms a seeded change delivered by an independent sub-agent and runs the property's check against it.

    tools/seed_eval.py C09 [--name N] [--tier quick] [--also C08,C12]

Steps (all on scratch copies; /repo is never modified):
  1. copy /repo's working tree, apply /tmp/seedout/<ID>/patch.diff
  2. the repository's own tests must still pass on the changed copy
  3. demo.py must exit 1 on the changed copy and 0 on an unchanged copy
  4. ./check <ID> (PV_REPO=changed copy) must exit 1 with a VIOLATION line
  5. store patch.diff, demo.py, notes.md and meta.json under /verif/seeded/<ID>[-name]/
"""
import argparse
import json
import os
import shutil
import subprocess
import sys
import tempfile
import time

HERE = os.path.dirname(os.path.dirname(os.path.abspath(__file__)))
sys.path.insert(0, os.path.join(HERE, 'tools'))
import sens  # noqa


def main():
    ap = argparse.ArgumentParser()
    ap.add_argument('pid')
    ap.add_argument('--src', help='directory with patch.diff / demo.py / notes.md (default /tmp/seedout/<ID>)')
    ap.add_argument('--name', default='')
    ap.add_argument('--tier', default='quick')
    ap.add_argument('--also', default='')
    ap.add_argument('--seed', default='1')
    a = ap.parse_args()
    pid = a.pid.upper()
    src = a.src or f'/tmp/seedout/{pid}'
    patch = os.path.join(src, 'patch.diff')
    demo = os.path.join(src, 'demo.py')
    base = tempfile.mkdtemp(prefix='pvseed-', dir='/dev/shm')
    meta = {'property': pid, 'evaluated_at': time.strftime('%Y-%m-%dT%H:%M:%SZ', time.gmtime()),
            'repo_head': subprocess.check_output(['git', '-C', '/repo', 'log', '-1', '--format=%h']).decode().strip()}
    try:
        changed, clean = os.path.join(base, 'changed'), os.path.join(base, 'clean')
        sens.copy_repo(changed)
        sens.copy_repo(clean)
        subprocess.run(['git', 'init', '-q'], cwd=changed, check=True)
        p = subprocess.run(['git', 'apply', '--whitespace=nowarn', patch], cwd=changed, capture_output=True, text=True)
        meta['patch_applies'] = p.returncode == 0
        if p.returncode != 0:
            print('patch does not apply:', p.stderr)
            return 2
        shutil.rmtree(os.path.join(changed, '.git'), ignore_errors=True)
        # the demo may want a Default ruleset
        for d in (changed, clean):
            if os.path.isdir('/repo/Rules/Default') and not os.path.exists(os.path.join(d, 'Rules', 'Default')):
                os.symlink('/repo/Rules/Default', os.path.join(d, 'Rules', 'Default'))
        t = subprocess.run(['/venv/bin/python', '-m', 'pytest', '-q', '-p', 'no:cacheprovider'], cwd=changed, capture_output=True, text=True)
        meta['tests_pass_with_change'] = t.returncode == 0
        meta['tests_tail'] = t.stdout.strip().splitlines()[-1] if t.stdout.strip() else ''
        d1 = subprocess.run(['/venv/bin/python', demo, changed], capture_output=True, text=True, timeout=900)
        d0 = subprocess.run(['/venv/bin/python', demo, clean], capture_output=True, text=True, timeout=900)
        meta['demo_exit_with_change'] = d1.returncode
        meta['demo_exit_without_change'] = d0.returncode
        meta['demo_output_with_change'] = (d1.stdout + d1.stderr)[-600:]
        meta['checks'] = {}
        for cid in [pid] + [x for x in a.also.split(',') if x]:
            env = dict(os.environ, PV_REPO=changed, VERIF_SEED=a.seed)
            t0 = time.time()
            c = subprocess.run([os.path.join(HERE, 'check'), cid, '--tier', a.tier, '--no-evidence'], env=env, capture_output=True, text=True)
            kinds = [l.strip()[:300] for l in c.stderr.splitlines() if l.startswith('  [')]
            meta['checks'][cid] = {'cmd': f'PV_REPO=<changed copy> VERIF_SEED={a.seed} ./check {cid} --tier {a.tier}', 'exit': c.returncode,
                                   'caught': c.returncode == 1 and 'VIOLATION' in c.stdout, 'first_reports': kinds[:3],
                                   'wall_s': round(time.time() - t0, 1)}
        ok = meta['tests_pass_with_change'] and d1.returncode == 1 and d0.returncode == 0
        meta['confirmed'] = ok
        print(json.dumps(meta, indent=1))
        if ok:
            dst = os.path.join(HERE, 'seeded', pid + (('-' + a.name) if a.name else ''))
            os.makedirs(dst, exist_ok=True)
            shutil.copy2(patch, os.path.join(dst, 'patch.diff'))
            shutil.copy2(demo, os.path.join(dst, 'demo.py'))
            if os.path.exists(os.path.join(src, 'notes.md')):
                shutil.copy2(os.path.join(src, 'notes.md'), os.path.join(dst, 'notes.md'))
                meta['needs_to_manifest'] = 'see notes.md (written by the independent sub-agent)'
            with open(os.path.join(dst, 'meta.json'), 'w') as f:
                json.dump(meta, f, indent=1)
            print('stored in', dst)
        return 0 if ok else 1
    finally:
        shutil.rmtree(base, ignore_errors=True)


if __name__ == '__main__':
    sys.exit(main())
