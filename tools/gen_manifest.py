#!/usr/bin/env python3
"""Regenerates /verif/MANIFEST.json from the table below and validates it against the schema.
A property is claimed iff pv/checks/<id>.py exists and it has an entry in CHECKS."""
import json
import os
import sys

HERE = os.path.dirname(os.path.dirname(os.path.abspath(__file__)))

NOTE_COMMON = ("Trusted base: Hypothesis' generators/shrinker, the harness' ruleset writer and model-side oracle "
               "(pv/rsmodel.py), CPython. Assumes well-formed rulesets (lists sorted by non-increasing probability) "
               "and explores bounded sizes only; absence of violations outside the explored sizes is not established.")

CHECKS = {
    'C01': dict(
        technique="Hypothesis property-based testing: generated rulesets x flags, exact-rational product oracle, order invariant, determinism replay (in-process and subprocess with other hash seeds); scale part: 59 049 base structures (a queue of more than 50 000 entries), i-th emitted == i-th largest probability",
        text=("Generated-input search: synthetic rulesets (ties, dyadic/denormal probabilities, repeated types, single-entry "
              "variables, duplicate structures, Markov anywhere) x 6 flag sets are loaded by the real loader and the real "
              "priority queue is drained; every adjacent pair is checked on the tool's own floats, every attached "
              "probability against the exact rational product of the model, and the sequence against a second run and "
              "against runs in other processes with different hash seeds. Exploration, not proof."),
        design='4/C01'),
    'C02': dict(
        technique="Hypothesis property-based testing + exhaustive small-scope enumeration of tie patterns; model-side product-set oracle (multiset equality) and a per-pop frontier invariant on the real heap; scale part shared with C01 (59 049 base structures)",
        text=("Generated rulesets x flags: the multiset of pre-terminals popped from the real queue must equal the model's product "
              "set (nothing missing, nothing twice); after every pop no pre-terminal may be in emitted+heap more often than its "
              "structure occurs; small cases are expanded and the Counter of guesses compared with the model language. An "
              "exhaustive sweep covers all single-structure grids of 1-3 variables x 1-3 groups over tie-producing probability "
              "pools, with repeated types and duplicated structures. Exploration; the grid sub-part is exhaustive for its finite scope."),
        design='4/C02'),
    'C04': dict(
        technique="Hypothesis property-based testing: every pre-terminal of a generated ruleset is expanded by the real guesser with stdout captured and compared (Counter) with a model-side expansion; Markov levels against an independent OMEN enumerator; every pre-terminal also under drawn guess limits (reported count == lines written); scale part: one group of up to 300 007 values",
        text=("Generated rulesets (groups of any size, all U/L masks, adjacent alpha words, alpha at start/middle/end, spaces, "
              "non-ASCII and non-BMP values, Markov levels incl. tied probabilities): for every pre-terminal of the model the lines "
              "written by the real create_guesses must equal the model's product of groups with masks applied, the returned count "
              "must equal the number of lines, and every loaded value must carry its group's probability. Exploration."),
        design='4/C04'),
    'C08': dict(
        technique="Hypothesis property-based testing over (ruleset, every cut point) and generated multi-cycle quit/resume histories, driving the real pcfg_guesser.main() in-process with a harness-owned keyboard; multiset/order relations against the uninterrupted run; fixed-shape scale part (index sums above 1000), a stdout whose consumer goes away followed by --load",
        text=("For generated tie-heavy rulesets the real main() is interrupted by an explicit 'q' noticed right after the k-th pop, for "
              "every k, the real save file is written and a real --load run resumes: the resumed sequence must be non-increasing, "
              "nothing above the saved probability, a superset of the uninterrupted remainder, and repeat only pre-terminals tied "
              "with the saved probability that were emitted before. Histories of up to 5 cycles check that nothing is lost and only "
              "saved-position ties repeat; a changed UUID must be refused. Exploration; every cut of each generated ruleset is "
              "enumerated."),
        design='4/C08'),
    'C09': dict(
        technique="Hypothesis property-based testing, metamorphic limit-N == prefix(N) for every N, model-side expansion oracle for the unlimited stream, byte-exact differential against real CLI subprocesses; tied groups of 1000-20000 values with limits at threshold offsets; CLI runs under generated invocation contexts incl. an ascii-only, block-buffered stdout",
        text=("Generated rulesets (incl. Markov levels) x flags: the real main() runs unlimited and with -n N for every N up to "
              "total+2; stdout must be exactly the first N lines of the unlimited run, and the unlimited stream must be exactly "
              "the model-side expansion of the popped pre-terminals (so any extra line on stdout is caught). A CLI part runs "
              "pcfg_guesser.py as a subprocess (stdin /dev/null or an open pipe) and compares raw stdout bytes. Exploration."),
        design='4/C09'),
    'C12': dict(
        technique="Hypothesis-generated event schedules over a harness-owned keyboard thread (real keypress() in a real thread, scripted input()), history oracle against the uninterrupted stream; plus repeated real-process runs under six stdin conditions; harness-owned clock and tty-ness of stdin, neighbour sessions, requests inside one pre-terminal of up to 160 000 guesses, status requests between a pre-terminal becoming current and its expansion",
        text=("The schedule of the keyboard thread is owned by the harness: status, help, quit, EOF, lost-stdin, OSError, ValueError and "
              "failing status prints are delivered at generated loop positions (between pops, after a guess, between two Markov "
              "guesses, inside a restored Markov remainder) in histories of up to 3 runs, and the thread settles before the loop "
              "continues, so each interleaving is reproducible. Only an explicit quit may shorten a run, it must stop at a "
              "boundary with the state saved, resume must complete the stream, and status/help must not end the keyboard thread. "
              "Real processes with stdin=/dev/null, closed, pipe at EOF, pipe with input then EOF, open pipe and a pty must write "
              "the full stream. Exploration; pre-emptive races are sampled, not enumerated."),
        design='4/C12'),
    'C15': dict(
        technique="Hypothesis property-based testing over (ruleset with OMEN model, every quit position) and generated multi-quit histories through the real main(); exact concatenation oracle against the uninterrupted stream; neighbour sessions, runs of a history in separate processes with different string-hash seeds; scale part: a Markov level of 326 592 strings interrupted, resumed, followed by a later quit",
        text=("For generated rulesets with generated OMEN models a quit is requested after every guess index of the run (all positions "
              "inside every Markov level), the session is resumed with --load and on a sample interrupted again; histories with up "
              "to 4 quits are generated. With distinct probabilities the runs must concatenate to exactly the uninterrupted "
              "stream (remainder first, nothing repeated or skipped, never replayed by a later cycle); with ties only guesses of "
              "pre-terminals tied with a saved position may repeat. Exploration; every position of each generated run is enumerated."),
        design='4/C15'),
    'C14': dict(
        technique="Hypothesis property-based testing with a metamorphic oracle (flagged run vs. filtered/rescaled default run of the same real guesser) plus model-side all-lower language; flags through save/restore via the real main(); neighbour sessions with other flags under related session names; base lists of up to 1500 lines with the Markov line anywhere",
        text=("Generated rulesets with the Markov structure at any position, absent or alone, under all four flag combinations: the "
              "skip_brute run must equal the default run minus Markov pre-terminals, same order modulo mathematically tied "
              "probabilities, rescaled by 1/(1-P(Markov)) (identity without a Markov structure; nothing for Markov-only); "
              "all_lower must load every mask variable as {L^n: 1.0} and leave every other variable unchanged, and produce the "
              "model's all-lower language. A session started with flags and resumed with a plain --load must stay inside the "
              "flagged run's pre-terminals and language. Exploration."),
        design='4/C14'),
    'C16': dict(
        technique="Hypothesis property-based testing with scripted uniform draws: breakpoint sweep of the piecewise-constant sampler against exact cumulative sums, scripted in-group choices, end-to-end language/limit/reproducibility checks (in-process and CLI); CLI runs with --load histories, named sessions and different hash seeds, incl. rulesets that list a value twice; same draws after different earlier walks select the same derivation (hand-pruned terminal lists included); scale part: base lists of 3000 / 12 000 structures",
        text=("The random source seen by the sampler is replaced by a script, so the draw can be placed exactly on, one ulp around and "
              "between every cumulative-probability breakpoint of the base list and of every variable of generated count-normalised "
              "rulesets (and of sub-normalised base lists): the selected structure/group must be the interval containing the draw, "
              "which pins every derivation's probability to 1e-12; every in-group index must yield the corresponding value. "
              "End-to-end runs must print exactly N words of the model's non-Markov language in both modes and random_walk must "
              "reproduce itself in-process and across CLI processes. Exploration."),
        design='4/C16'),
    'C17': dict(
        technique="Hypothesis property-based testing: real prince_ling.main() unbounded / to a file / with every --size N, against a model-side language of (type, value, capitalisation) with exact-rational probabilities; metamorphic size-N == prefix(N); CLI byte comparison; prince_ling.py as a subprocess under generated invocation contexts (relative / absolute -o, existing output files); tied PRINCE types compared across processes with different hash seeds; scale part: word lists of more than 1 MiB",
        text=("Generated rulesets with a PRINCE base list (all terminal types incl. e-mail/website), both all_lower settings: the "
              "unbounded list must be the model language with one word per derivation in non-increasing model probability, the "
              "file written with --output must be byte-identical to stdout, and --size N must give exactly the first N words for "
              "every N up to |U|+1 (in particular N inside a group of equally probable words). Exploration; every N of each "
              "generated ruleset is enumerated."),
        design='4/C17'),
    'C20': dict(
        technique="Hypothesis property-based testing: real edit_rules.edit_rules() on generated rulesets x generated option sets, independent filter oracle (own tokenizer and label arithmetic), SHA-256 tree comparison, guess lengths from the real guesser on the edited ruleset; edit_rules.py as a subprocess under generated invocation contexts (non-ASCII names, ascii-only or unwritable stdout: nothing half-written); base lists in and out of probability order; scale part: lists of 10 000 / 32 768 lines of exactly 32 bytes",
        text=("Generated rulesets and option combinations (length bounds, terminal sets, regexes, --copy): the edited base list must be "
              "a sub-sequence of the original lines with identical text, every structure the independent oracle says passes must "
              "stay and every one that fails must go, no other file (and with --copy nothing in the source) may change, and every "
              "non-Markov guess of the edited ruleset must respect the bounds. One open finding (F20: context label X<n> counted as n "
              "characters) is reported as KNOWN-FINDING and excluded from the alarm by its signature only. Exploration."),
        design='4/C20',
        note=(NOTE_COMMON + ' Two open known findings (F20: context label X<n> counted as n characters; F20b: letters whose upper-case form is longer than one character) are matched by signature on the failing case and printed as KNOWN-FINDING; any other violation of the property still exits 1.')),
    'C10': dict(
        technique="Hypothesis property-based testing of generated OMEN models x every level, and a Hypothesis RuleBasedStateMachine over cache histories (shared optimizer), against an independent DFS reference enumerator; deterministic work budget instead of timeouts; OMEN files in LF / CRLF / unterminated spellings; sequence equality with an empty-cache generator; scale part: one shared cache grown beyond 2^18 results",
        text=("Generated OMEN models (n-gram 2-5, sparse/dense, dead-end and expensive-only contexts, length == n-gram size) are written "
              "to disk, loaded by the real loader and every level 0..12 is generated by the real MarkovCracker: no duplicates, set "
              "equal to an independent enumerator's, exhaustion reported. A rule-based state machine interleaves full runs, "
              "abandoned partial runs, and optimizer replacement on one shared cache and checks every full run against the "
              "reference, so results cannot depend on cache contents or generation history. Exploration."),
        design='4/C10'),
    'C05': dict(
        technique="Hypothesis property-based testing (structured password grammar + st.text filtered by the real input filter) and a Hypothesis RuleBasedStateMachine over detector training histories; validity-predicate oracle on the recorded segmentation and exact counter-delta tallies; plus the whole run_trainer on generated lists (expanded / --prefixcount spellings, -m word list) against a reference multi-word model; scale part: a detector history of 70 000 / 250 000 distinct words",
        text=("Passwords built from interleaving/overlapping trigger fragments (words, multi-words, digits, years, keyboard walks over "
              "both layouts, context strings and near-misses, e-mail/website look-alikes, Unicode incl. U+0130) are parsed by the real "
              "parser behind a real multi-word detector whose training history is generated and mirrored in a dict model; the section "
              "list handed to base_structure_creation must tile the password, have no empty/untyped segment, true lengths, sound "
              "labels (maximal digit runs, alpha only letters and split only per the threshold rule, years, walks on one common "
              "layout with mixed classes per the harness' own layout tables, context list, 'other' without letters/digits), and the "
              "counters must change by exactly the tallies of those segments. Exploration."),
        design='4/C05'),
    'C19': dict(
        technique="Hypothesis-generated training files (bytes) against a reference line reader (differential), metamorphic relation plain == $HEX == count-prefixed on rulesets produced by the real trainer, equality of the three passes, marker-based leak detection; trainer.py as a subprocess for every rendering under generated invocation contexts (strict-UTF-8 stdout); scale part: lists of 300 000 / 1.2 M lines through the reader",
        text=("Training files are generated as bytes in five encodings with plain/hex/count-prefixed renderings, CRLF, look-alikes, "
              "spaces and junk lines (tabs, control and separator characters, undecodable bytes, bad hex, missing passwords): the real "
              "reader's yielded sequence and counters must equal a reference reader's; the real trainer run on the three equivalent "
              "renderings must write byte-identical rulesets (apart from uuid/filename), its three passes must see the same sequence, "
              "and a marker carried by every junk line must not appear in any ruleset file. Exploration."),
        design='4/C19'),
    'C06': dict(
        technique="Hypothesis property-based testing of the real run_trainer(): every written list is recomputed from the harness' own tallies of the recorded segmentation (count/total, order, sum), Markov pseudo-count formula, E/W filter; determinism by repeated runs incl. another process with another hash seed; trainer.py as a subprocess under generated invocation contexts (working directory, rule-name spellings, neighbours and stale files in Rules/)",
        text=("Generated training lists (ties in counts, single-item length classes, lists dominated by e-mail/website structures) x "
              "coverage 0..1 x n-gram x alphabet size: each terminal, mask, base-structure, raw and PRINCE list on disk must contain "
              "exactly the items of the recorded segmentation, once each, with probability count/total, in non-increasing order, "
              "summing to 1; the Markov structure must carry N/coverage-N, be absent for coverage 1 and alone for coverage 0; E/W "
              "structures only in the raw list; two runs (and a run in another process with another hash seed) must be "
              "byte-identical apart from the UUID. Exploration."),
        design='4/C06'),
    'C03': dict(
        technique="Hypothesis property-based end-to-end testing: generated training lists through the real trainer, the ruleset on disk, the real loader and a full real guesser run; membership oracle on the recorded segmentation and probability-mass check; plus a real-process part (trainer.py then pcfg_guesser.py with one spelling of -r) under generated invocation contexts",
        text=("Generated lists over five encodings, coverage (0,1], n-gram and alphabet sizes are trained by the real trainer; the "
              "resulting ruleset is loaded by the real guesser (Markov skipped), the queue is drained and every pre-terminal "
              "expanded: every training password whose segmentation has no e-mail/website segment must be emitted byte for byte and "
              "the probabilities of all emitted guesses must sum to 1. Exploration, bounded to languages of 40000 guesses."),
        design='4/C03'),
    'C07': dict(
        technique="Exhaustive enumeration of all accepted code points (round trip real writer -> real guesser loader and real scorer loader, batched with bisection) plus Hypothesis property-based differential testing of trained rulesets across trainer counters, guesser tables, scorer tables, OMEN loaders and config.ini lists; re-training into a used directory, CRLF / unterminated files, numeric shapes of the probability column; utf-8-sig rulesets through the loaders that can read them; scale parts: lists of up to 160 001 lines, a training list of 42 000 distinct passwords",
        text=("Every one of the ~1.11 million code points the input filter accepts (and every byte of the single-byte encodings) is "
              "written at four positions by the real rules writer and must be read back unchanged, with the exact probability, by both "
              "real loaders - this sub-part is exhaustive. Generated training lists in five encodings are trained and every value, "
              "probability, base structure, OMEN IP/CP/LN level and the alphabet must be identical in the trainer's counters, the "
              "guesser's grammar, the scorer's tables and both OMEN loaders, and config.ini must list exactly the files on disk. "
              "Exploration with an exhaustive sub-part."),
        design='4/C07'),
    'C11': dict(
        technique="Hypothesis property-based 3-way differential testing (trainer's find_omen_level vs scorer's OmenScorer.parse vs guesser tables + real MarkovCracker membership) on rulesets produced by the real trainer, with generated and mutated candidate strings; the level PCFGPasswordScorer.parse reports for every candidate incl. e-mail / web-site strings; whole generator levels 0..12 against the reference enumeration over the loaded tables; scale part: lists of 70 000 / 400 000 passwords",
        text=("Generated training lists (small alphabets, n-gram 2-5, several encodings) are trained; for training passwords, "
              "generator output and mutated candidates (out-of-alphabet characters at each position, lengths n-1, n, n+1, 21, 22, "
              "empty) the trainer's level, the scorer's level and the level by the guesser's loaded tables must be the same number "
              "or all -1; for enumerable levels the string must be emitted by the real Markov generator at exactly that level and no "
              "other; omen_pws_per_level.txt must equal the tally of trainer levels. Exploration."),
        design='4/C11'),
    'C18': dict(
        technique="Hypothesis property-based testing: saved omen_keyspace.txt / pcfg_omen_prob.txt of really trained rulesets against a count of the real Markov generator's distinct output per level; every listed level 1..18 also against an independent dynamic-programming count; both spellings of the training list",
        text=("Generated lists of short passwords over tiny alphabets (dominated by length == n-gram size or by a single length) are "
              "trained; for every listed level that is small enough to enumerate the real MarkovCracker is run to exhaustion and the "
              "number of distinct strings must equal the saved keyspace, and the saved level probability must be (count at level / N) "
              "/ keyspace, with zero-keyspace levels absent. Exploration; larger levels are inconclusive and counted."),
        design='4/C18'),
    'C13': dict(
        technique="Hypothesis property-based differential testing of the real scorer against the language map of a full real guesser run on rulesets produced by the real trainer, with perturbed candidates; classification and purity checks; scorer cut-off (--limit), rulesets narrowed as edit_rules leaves them, password_scorer.py as a subprocess under generated invocation contexts",
        text=("Generated training lists are trained, the real guesser enumerates the whole (bounded) language with pre-terminal "
              "probabilities, and the real scorer scores training passwords, guesser output, case/digit/symbol perturbations, unrelated "
              "strings and e-mail/website strings: a non-zero score requires the exact string in the guesser's language with a "
              "pre-terminal probability equal to 1e-9 relative; detected e-mail/website strings must be classified e/w with "
              "probability 0; re-scoring must return the identical tuple. Exploration."),
        design='4/C13'),
}

NOT_YET = "check not built yet in this round (design exists in DESIGN.md section 4); not claimed until it runs"


def main():
    props = [json.loads(l) for l in open(os.path.join(HERE, 'properties.jsonl'), encoding='utf-8') if l.strip()]
    checks = []
    na = []
    for p in props:
        pid = p['id']
        have = os.path.exists(os.path.join(HERE, 'pv', 'checks', pid.lower() + '.py')) and pid in CHECKS
        if not have:
            na.append({'property_id': pid, 'reason': NOT_YET})
            continue
        c = CHECKS[pid]
        checks.append({
            'property_id': pid,
            'quick_cmd': f'./check {pid} --tier quick',
            'thorough_cmd': f'./check {pid} --tier thorough',
            'evidence_file': f'/verif/evidence/{pid}.json',
            'replay_cmd_template': f'./check {pid} --replay {{path}}',
            'engine': 'pv',
            'level_claimed': {'category': c.get('level', 'exploration'), 'text': c['text'],
                              'design_ref': 'DESIGN.md section ' + c['design']},
            'level_note': c.get('note', NOTE_COMMON),
            'technique': c['technique'],
        })
    man = {
        'version': 1,
        'setup_cmd': './setup.sh',
        'hooks': {
            'guard': 'PCFG_CRACKER_VERIF',
            'enable': 'no source hooks are needed: the harness wraps module-level callables of /repo from outside; the guard names nothing in the sources',
            'baseline_off_cmd': 'cd /repo && /venv/bin/python -m pytest -ra -q -p no:cacheprovider --timeout=900 --continue-on-collection-errors',
            'source_commits': [],
            'add_only': True,
        },
        'engines': [{'name': 'pv', 'path': '/verif/pv', 'serves_properties': [c['property_id'] for c in checks],
                     'kind_free_text': 'Hypothesis property-based testing / stateful testing / exhaustive small-scope enumeration / atheris fuzzing with explicit oracles; ./check <ID> --tier quick|thorough'}],
        'checks': checks,
        'notes': 'Entry point ./check <ID> --tier quick|thorough [--replay FILE] [--part NAME]; VERIF_SEED selects the seed; evidence/<ID>.json is rewritten by every run; known_findings.jsonl lists open findings (F20, F20b for C20) and fixed: records of the 21 fix: commits in /repo; DESIGN.md section 9 describes what was built, found and how the checks were validated (pv/mutants, seeded/, sensitivity.md).',
        'not_applicable': na,
    }
    path = os.path.join(HERE, 'MANIFEST.json')
    with open(path, 'w') as f:
        json.dump(man, f, indent=1)
        f.write('\n')
    try:
        import jsonschema
        schema = json.load(open('/root/.vp/MANIFEST.schema.json'))
        jsonschema.validate(man, schema)
        print('MANIFEST.json valid;', len(checks), 'checks claimed;', len(na), 'not claimed')
    except ImportError:
        print('MANIFEST.json written (jsonschema not importable here: not validated);', len(checks), 'checks')


if __name__ == '__main__':
    main()
