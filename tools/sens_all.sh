#!/bin/bash
# Runs every hand-written mutant of every property (tools/sens.py) and writes sensitivity.md
cd "$(dirname "$0")/.." || exit 2
out=${SENS_OUT:-sensitivity.md}
{
echo "# Sensitivity record: hand-written mutants (pv/mutants/*.json)"
echo
echo "Each mutant is applied to a scratch copy of /repo's working tree; the repository's own tests are run on the copy and the"
echo "property's quick check is run against it (PV_REPO). Regenerate with tools/sens_all.sh. Generated $(date -u +%Y-%m-%dT%H:%MZ)"
echo "at /repo commit $(git -C /repo log -1 --format=%h)."
echo
echo '```'
} > $out
for f in pv/mutants/C*.json; do
  id=$(basename $f .json)
  python3 tools/sens.py $id --tests 2>&1 | grep -v "Warn" | cut -c1-200 >> $out
done
echo '```' >> $out
grep -c CAUGHT $out; grep -c "MISSED\|BAD-MUTANT" $out
