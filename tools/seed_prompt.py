#!/usr/bin/env python3
"""Prints the prompt given to an independent sub-agent that seeds a property-breaking change (nothing from /verif is shown to it)."""
import json, sys
pid = sys.argv[1]
tag = sys.argv[2] if len(sys.argv) > 2 else pid
focus = sys.argv[3] if len(sys.argv) > 3 else None
hint = sys.argv[4] if len(sys.argv) > 4 else None
d = next(json.loads(l) for l in open('/verif/properties.jsonl') if json.loads(l)['id'] == pid)
print(f"""You are helping to evaluate a verification harness for the open-source project lakiw/pcfg_cracker (a PCFG password-guess generator: a trainer that segments leaked passwords into a probabilistic grammar, a guesser that enumerates guesses in probability order, a scorer, PRINCE-LING and edit_rules). You get your OWN scratch git worktree of the repository at /tmp/seedwt/{tag} . Work ONLY inside /tmp/seedwt/{tag} and /tmp/seedout/{tag} . Never touch /repo or /verif and do not read anything under /verif.

The property under study (id {pid}): "{d['title']}"
Statement: {d['statement']}
It must hold: {d['quantifier']['text']}
Relevant files: {', '.join(d['anchors']['files'])}

YOUR TASK: write ONE realistic source change to the repository (in your worktree) that BREAKS this property while
 (a) the code still imports/compiles and the repository's existing test suite still passes:  cd /tmp/seedwt/{tag} && /venv/bin/python -m pytest -q -p no:cacheprovider   (75 tests, all must pass), and
 (b) the breakage needs something SPECIFIC to manifest - a particular interleaving, a crash/fault/quit at a particular point, a multi-step sequence of operations, an unusual input or ruleset shape, or two cooperating code sites that each look fine alone. It must NOT be exposed at once by ordinary use (e.g. running the guesser on the Default ruleset for a few guesses must look normal). Make it look like a plausible refactoring/optimisation/bug-fix gone wrong, not sabotage; keep it small (a few lines, at most two files).
Then write a DEMONSTRATION: a small self-contained Python script /tmp/seedout/{tag}/demo.py (run as: /venv/bin/python /tmp/seedout/{tag}/demo.py <repo_root>) that imports the code from <repo_root> (sys.path.insert(0, repo_root)), builds whatever input it needs (tiny rulesets / training files in a temp dir - look at Rules/Default for the on-disk format, or at the loaders), exits 0 when the property holds and exits 1 (printing what went wrong) when it is violated. It must FAIL (exit 1) with your change applied and PASS (exit 0) on the unchanged repository. Verify both yourself: run it against /tmp/seedwt/{tag} with your change; then save the diff (git -C /tmp/seedwt/{tag} diff > /tmp/seedout/{tag}/patch.diff), revert with `git -C /tmp/seedwt/{tag} apply -R /tmp/seedout/{tag}/patch.diff`, run the demo again (must exit 0), and re-apply with `git -C /tmp/seedwt/{tag} apply /tmp/seedout/{tag}/patch.diff`. NEVER use `git stash` (the stash is shared between worktrees and other people are working in sibling worktrees).
Deliver, in /tmp/seedout/{tag}/ :
  patch.diff  = output of `git -C /tmp/seedwt/{tag} diff` (do NOT commit),
  demo.py,
  notes.md    = 5-15 lines: what the change is, why it breaks the property, exactly what is needed for it to manifest, and the commands you ran with their results (tests pass, demo fails with / passes without).
{('FOCUS: put your change in (or mainly in) ' + focus + ' - think of a failure mode that only shows after a particular history of operations or for a particular shape of input, not one that every run hits.') if focus else ''}
{('HINT: ' + hint) if hint else ''}
Tips: python is /venv/bin/python (3.12). Source files mostly use CRLF line endings - preserve them (edit carefully so that `git diff` shows only your lines). Do not use the network. Finish by printing the content of notes.md as your final answer.""")
