#!/bin/bash
# Offline setup: everything comes from the image (/venv, /opt/veriftools/wheels). Idempotent.
set -u
HERE="$(cd "$(dirname "${BASH_SOURCE[0]}")" && pwd)"
cd "$HERE" || exit 1
export PIP_NO_INDEX=1
PY=/venv/bin/python
if ! "$PY" -c "import hypothesis" 2>/dev/null; then
  /venv/bin/pip install --no-index --find-links /opt/veriftools/wheels hypothesis || exit 1
fi
mkdir -p .deps evidence
if ! PYTHONPATH="$HERE/.deps" "$PY" -c "import atheris" 2>/dev/null; then
  /venv/bin/pip install --no-index --find-links /opt/veriftools/wheels --target "$HERE/.deps" atheris >/dev/null 2>&1 \
    || echo "note: atheris not installable; fuzz sub-parts fall back to Hypothesis only" >&2
fi
"$PY" -c "import hypothesis, sys; print('setup ok: python', sys.version.split()[0], 'hypothesis', hypothesis.__version__)"
